"""C14  One-time prekeys — Model/PreKeys.lean vs the real AxolotlControlLayer + AxolotlManager + SQLite
store (small batch sizes) against a minimal server double; consumption by real first messages
(python-axolotl PreKeyWhisperMessage from fresh peers); property oracle on the real run."""
import contextlib
import io
import os
import uuid

import boot  # noqa: F401
from core import corr, oracle
from lib.probes import Probe
from corr.c16 import FakeDispatcher

PID = "C14"
GEN = []
LEAN_MODULES = ["YowsupVerif.Props.C14"]
RULE = ("histories of 4..16 events over {connect, authenticated (with the passive flag the stack holds), server asks for keys, upload result / "
        "error for any upload in flight, connection loss, process restart, a peer's first message consuming a chosen offered key id} with batch "
        "size 4-6 and regeneration threshold 2, on the real control layer + manager + SQLite store; after every event the uploads sent (ids), "
        "the prekeys table (id, sent flag), the pending list, passive property and reboot flag are compared with the Lean model; the oracle checks "
        "sent<=>confirmed, re-offer of unconfirmed keys at the next login, availability of every offered key until consumed, single use, "
        "and the identity / registration id / signed-prekey signature of every upload (Curve.verifySignature). distinct = distinct history.")
RULE += (" The corpus histories also with the library's loggers at WARNING / DEBUG / CRITICAL / INFO.")
RULE += (" Event serverIqSameId (the server's own ping under the id of a pending upload); corpus histories with an unconfirmed upload followed by a login below the regeneration threshold.")
ASSUMPTIONS = ["python-axolotl's session builder removes the one-time prekey a first message names (exercised with real PreKeyWhisperMessages)",
               "key ids stay far below the 24-bit wrap-around"]


def setup(chk):
    import yowsup.layers.network.layer as nl
    from yowsup.axolotl.manager import AxolotlManager
    nl.AsyncoreConnectionDispatcher = FakeDispatcher
    chk.batch, chk.threshold = 4, 2
    AxolotlManager.COUNT_GEN_PREKEYS = chk.batch
    AxolotlManager.THRESHOLD_REGEN = chk.threshold


EVENTS = ["connect", "authed", "serverAsksKeys", "uploadResult", "uploadError", "disconnected", "restart", "consume"]


def cases(chk):
    r = chk.rng
    corpus = [
        ["connect", "authed", "uploadResult:0", "disconnected", "connect", "authed"],
        ["connect", "authed", "disconnected", "connect", "authed", "uploadResult:1", "disconnected", "connect", "authed"],
        ["connect", "authed", "restart", "connect", "authed", "uploadResult:0", "restart", "connect", "authed"],
        ["connect", "authed", "uploadResult:0", "consume:3", "consume:3", "consume:2", "consume:1", "disconnected", "connect", "authed", "uploadResult:0", "consume:3"],
        ["connect", "authed", "uploadResult:0", "serverAsksKeys", "uploadError:0", "disconnected", "connect", "authed"],
        ["connect", "connect", "authed", "uploadResult:0", "serverAsksKeys", "uploadResult:0", "consume:7", "consume:0"],
        # a key is consumed while the upload that offered it is still unconfirmed, then the next login (with and without a restart)
        ["connect", "authed", "consume:1", "disconnected", "connect", "authed", "uploadResult:0", "consume:0"],
        ["connect", "authed", "consume:0", "consume:2", "restart", "connect", "authed", "uploadResult:0", "consume:1", "disconnected", "connect", "authed"],
        ["connect", "authed", "uploadError:0", "consume:3", "disconnected", "connect", "authed", "consume:0", "restart", "connect", "authed", "uploadResult:0"],
    ]
    for h in corpus:
        yield "history", {"events": h}
    # an upload left unconfirmed, then a login at which the key count is below the regeneration threshold (most of the unconfirmed keys consumed, or a
    # batch smaller than the threshold): the login offers the fresh batch AND what was still unconfirmed
    for h in (["connect", "authed", "consume:0", "consume:0", "consume:0", "disconnected", "connect", "authed", "uploadResult:0", "disconnected", "connect", "authed"],
              ["connect", "authed", "consume:1", "consume:1", "consume:0", "restart", "connect", "authed", "uploadError:0", "disconnected", "connect", "authed", "uploadResult:0"]):
        yield "history", {"events": h}
    yield "history", {"events": ["connect", "authed", "disconnected", "restart", "connect", "authed", "uploadResult:0", "disconnected", "connect", "authed"], "batch": 3, "threshold": 10}
    yield "history", {"events": ["connect", "authed", "uploadError:0", "disconnected", "connect", "authed", "disconnected", "connect", "authed", "uploadResult:0"], "batch": 2, "threshold": 9}
    # a server request (ping) carrying the id of an upload that is still unanswered, then the connection is lost: the upload stays unconfirmed
    for h in (["connect", "authed", "serverIqSameId:0", "disconnected", "connect", "authed", "uploadResult:0", "disconnected", "connect", "authed"],
              ["connect", "authed", "serverIqSameId:0", "restart", "connect", "authed", "consume:0", "uploadResult:0"],
              ["connect", "authed", "uploadResult:0", "serverAsksKeys", "serverIqSameId:0", "uploadError:0", "disconnected", "connect", "authed"]):
        yield "history", {"events": h}
    # the application's logging configuration (per-module levels) is its own business: the same histories with the library's loggers silenced /
    # made verbose
    for i, h in enumerate(corpus):
        yield "history", {"events": h, "loglevel": ["module-warning", "module-debug", "module-critical", "module-info"][i % 4]}
    # the library's own batch size (812 keys, regenerate below 10): two uploads in a row stay unconfirmed, so that the next login has more
    # than one batch pending — a limit on what one upload carries shows only then
    yield "history", {"events": ["connect", "authed", "uploadError:0", "serverAsksKeys", "disconnected", "restart", "connect", "authed", "uploadResult:0",
                                 "disconnected", "connect", "authed"], "batch": 812, "threshold": 10}
    # the same histories on a store that was in use with the upstream release before (row numbers ahead of the key ids)
    for i, h in enumerate(corpus):
        if any(e.startswith("consume") for e in h):
            yield "history", {"events": h, "legacy": 1 + i % 3}
    # batch sizes at the small numbers, at round numbers and at every integer constant of the key management's current source, each +-1: a confirmed
    # upload of that many keys leaves nothing pending, whatever the size (bookkeeping done in slices, pages, chunks)
    from lib.probes import harvest_ints
    sizes = set([1, 2, 5, 100, 101, 201]) | set(v + d for v in harvest_ints(["yowsup/axolotl/manager.py", "yowsup/layers/axolotl/layer_control.py"])
                                                 for d in (-1, 0, 1) if 2 <= v + d <= 300)
    for b in sorted(sizes):
        yield "history", {"events": ["connect", "authed", "uploadResult:0", "disconnected", "connect", "authed", "restart", "connect", "authed"],
                          "batch": b, "threshold": max(0, min(10, b - 1))}
    # the id encoding of uploads (prekey ids, signed prekey id, registration id) at every width boundary
    for k in range(0, 33):
        for n in sorted(set(x for x in ((1 << k) - 1, 1 << k, (1 << k) + 1, r.randrange(1 << k, 2 << k)) if 0 <= x < (1 << 32))):
            yield "idenc", {"n": n}
    # registration ids of every width (1..8 hex digits, and the extremes): the id is part of every upload
    for i, rid in enumerate([1, 0xf, 0x10, 0xfff, 0x1000, 0xfffff, 0x100000, 0xffffff, 0x1000000, 0x1abcdef, 0xfffffff, 0x10000000, 0x7ffffffe]):
        yield "history", {"events": corpus[i % 3], "regid": rid}
    # login cycles: (connect, authed, a few server / peer events, connection loss or restart) repeated — mostly-valid histories
    for _ in range(chk.scale(80, 2000)):
        evs = []
        for _c in range(r.randint(2, 4)):
            evs += ["connect", "authed"]
            for _i in range(r.randint(0, 4)):
                e = r.choice(["consume", "consume", "uploadResult", "uploadError", "serverAsksKeys", "serverIqSameId"])
                evs.append(e + (":%d" % r.randrange(6) if e != "serverAsksKeys" else ""))
            evs.append(r.choice(["disconnected", "restart", "disconnected"]))
        yield "history", {"events": evs}
    for _ in range(chk.scale(120, 3000)):
        evs = ["connect"]
        for _i in range(r.randint(3, 15)):
            e = r.choice(["connect", "authed", "authed", "serverAsksKeys", "uploadResult", "uploadResult", "uploadError", "disconnected", "restart",
                          "consume", "consume"])
            if e in ("uploadResult", "uploadError", "consume"):
                e += ":%d" % r.randrange(6)
            evs.append(e)
        yield "history", {"events": evs}


def nontrivial(stream, case):
    if stream == "idenc":
        return ("idenc", case["n"])
    return (tuple(case["events"]), case.get("regid"), case.get("loglevel"), case.get("batch"), case.get("legacy"))


class World(object):
    """one account: a profile on disk, the current process (stack), and the server's view"""

    def __init__(self, chk, regid=None):
        self.regid = regid
        from yowsup.config.v1.config import Config
        from consonance.structs.keypair import KeyPair
        self.chk = chk
        self.name = "c14-" + uuid.uuid4().hex
        self.config = Config(phone="4915155" + str(abs(hash(self.name)) % 10 ** 6), cc=49, client_static_keypair=KeyPair.generate())
        self.uploads = []          # per upload: dict(id, ids:[int], pubs:{id: bytes}, node)
        self.directory = {}        # id -> pubkey bytes currently offered by the server
        self.offered_hist = []     # (id, pub)
        self.confirmed = set()     # (id, pub)
        self.consumed = set()
        self.boot()

    def boot(self):
        from yowsup.layers.axolotl import AxolotlControlLayer
        from yowsup.layers.network import YowNetworkLayer
        from yowsup.profile.profile import YowProfile
        from yowsup.stacks import YowStack
        FakeDispatcher.created = []
        FakeDispatcher.LOG = []
        self.near, self.top = Probe("near", forward=True), Probe("top")
        self.stack = YowStack((YowNetworkLayer, self.near, AxolotlControlLayer, self.top), reversed=False)
        from axolotl.util.keyhelper import KeyHelper
        real_gen = KeyHelper.generateRegistrationId
        if self.regid is not None:
            # the account's registration id is drawn once, when the key store is created: force the width under test
            KeyHelper.generateRegistrationId = staticmethod(lambda extended_range=False: self.regid)
        try:
            prof = YowProfile(self.name, self.config)
            prof.axolotl_manager          # creates the store (and the registration id) now
            self.stack.setProfile(prof)
        finally:
            KeyHelper.generateRegistrationId = real_gen
        self.stack.setProp(YowNetworkLayer.PROP_ENDPOINT, ("e1.whatsapp.net", 443))
        self.control = self.stack.getLayer(2)
        self.inflight = []         # indexes into self.uploads of uploads this process is waiting for

    def dbpath(self):
        return os.path.join(os.environ["XDG_CONFIG_HOME"], "yowsup", self.name, "axolotl.db")

    def db_rows(self):
        import sqlite3
        c = sqlite3.connect(self.dbpath())
        try:
            rows = c.execute("SELECT prekey_id, sent_to_server, record FROM prekeys ORDER BY prekey_id").fetchall()
        finally:
            c.close()
        self.tombstones = [int(i) for i, s, rec in rows if rec is None]      # consumed keys: the row stays, without key material
        return [(int(i), 1 if s else 0, bytes(rec)) for i, s, rec in rows if rec is not None]


def _id_of(b):
    return int.from_bytes(bytes(b), "big")


def run_case(chk, stream, case):
    """(a case may ask for other batch sizes than the check's small ones: "batch" / "threshold", e.g. the library's own 812 / 10)"""
    from yowsup.axolotl.manager import AxolotlManager
    saved = (chk.batch, chk.threshold)
    if case.get("batch"):
        chk.batch, chk.threshold = case["batch"], case.get("threshold", 10)
        AxolotlManager.COUNT_GEN_PREKEYS, AxolotlManager.THRESHOLD_REGEN = chk.batch, chk.threshold
    try:
        from lib import logcfg
        with logcfg.levels(case.get("loglevel")):
            if case.get("loglevel"):
                chk.hit("logging:" + case["loglevel"])
            return _run_case(chk, stream, case)
    finally:
        chk.batch, chk.threshold = saved
        AxolotlManager.COUNT_GEN_PREKEYS, AxolotlManager.THRESHOLD_REGEN = saved


def _run_case(chk, stream, case):
    if stream == "idenc":
        from yowsup.layers.axolotl import AxolotlControlLayer
        n = case["n"]
        chk.hit("idenc:%d-hex-digits" % len("%x" % n))
        try:
            got = ",".join(str(b) for b in bytearray(AxolotlControlLayer().adjustId(n)))
        except Exception as e:
            return [oracle("C14:id-encoding-raises", "adjustId(%#x) raises %s: %s" % (n, type(e).__name__, e))]
        model = chk.driver.ask("pk adjust %d" % n)
        fs = []
        if got != model:
            fs.append(corr("idenc", "adjustId(%#x): impl=%s model=%s" % (n, got, model)))
        if int.from_bytes(bytes(int(x) for x in got.split(",")), "big") != n:
            fs.append(oracle("C14:id-encoding-not-the-id", "adjustId(%#x) = bytes %s, which read back as %#x" % (n, got, int.from_bytes(bytes(int(x) for x in got.split(",")), "big"))))
        return fs
    from yowsup.layers import YowLayerEvent
    from yowsup.layers.auth import YowAuthenticationProtocolLayer
    from yowsup.layers.network import YowNetworkLayer
    from yowsup.structs import ProtocolTreeNode as N
    from axolotl.state.prekeyrecord import PreKeyRecord
    fails = []
    d = chk.driver
    d.ask("pk reset %d %d" % (chk.batch, chk.threshold))
    w = World(chk, case.get("regid"))
    if case.get("legacy"):
        # a store that has been in use with the upstream release: that code DELETED the row of a consumed key, so the table's row counter
        # (AUTOINCREMENT) is ahead of the key ids — every row written from now on has _id != prekey_id
        import sqlite3
        c = sqlite3.connect(w.dbpath())
        try:
            for _i in range(case["legacy"]):
                c.execute("INSERT INTO prekeys (prekey_id, sent_to_server, record) VALUES (?, 0, NULL)", (16000000 + _i,))
            c.execute("DELETE FROM prekeys WHERE prekey_id >= 16000000")
            c.commit()
        finally:
            c.close()
        chk.hit("legacy-store")
    sink = io.StringIO()
    npeer = 0
    authed_now = False      # first messages can only arrive on an authenticated connection
    parted = False          # model and code gave different answers once: no more comparisons, the oracles go on
    for ei, ev in enumerate(case["events"]):
        kind, _, arg = ev.partition(":")
        nsent = len(w.near.sent)
        nev = len(w.near.events)
        ncreated = len(FakeDispatcher.created)
        raised = None
        mev = None
        outs = []
        try:
            with contextlib.redirect_stdout(sink):
                if kind == "connect":
                    mev = "connect"
                    w.stack.emitEvent(YowLayerEvent(YowNetworkLayer.EVENT_STATE_CONNECTED))
                elif kind == "authed":
                    passive = bool(w.stack.getProp(YowAuthenticationProtocolLayer.PROP_PASSIVE, False))
                    if getattr(w.control, "manager", None) is None or authed_now:
                        continue        # not connected, or already logged in on this connection
                    mev = "authed %d" % (1 if passive else 0)
                    w.top.broadcastEvent(YowLayerEvent(YowAuthenticationProtocolLayer.EVENT_AUTHED, passive=passive))
                elif kind == "serverAsksKeys":
                    if getattr(w.control, "manager", None) is None or not authed_now:
                        continue        # notifications only arrive on an authenticated connection
                    mev = "serverAsksKeys"
                    w.near.toUpper(N("notification", {"id": "n%d" % ei, "from": "s.whatsapp.net", "type": "encrypt", "t": "1"}, [N("count", {"value": "3"})]))
                elif kind in ("uploadResult", "uploadError"):
                    if not w.inflight or getattr(w.control, "manager", None) is None:
                        continue
                    ui = w.inflight[int(arg) % len(w.inflight)]
                    up = w.uploads[ui]
                    w.inflight.remove(ui)
                    mev = "%s %d" % (kind, ui + 1)
                    if kind == "uploadResult":
                        for i in up["ids"]:
                            w.confirmed.add((i, up["pubs"][i]))
                        w.near.toUpper(N("iq", {"id": up["id"], "type": "result", "from": "s.whatsapp.net"}))
                    else:
                        w.near.toUpper(N("iq", {"id": up["id"], "type": "error", "from": "s.whatsapp.net"}, [N("error", {"code": "500", "text": "x"})]))
                elif kind == "serverIqSameId":
                    # a request of the SERVER's own (a ping) that happens to carry the id of an upload still waiting for its answer (both sides
                    # number their stanzas from 1): it is not the answer — nothing is confirmed by it (no model event: a ping is answered, that is all)
                    if not w.inflight or getattr(w.control, "manager", None) is None or not authed_now:
                        continue
                    up = w.uploads[w.inflight[int(arg) % len(w.inflight)]]
                    chk.hit("ev:serverIqSameId")
                    w.near.toUpper(N("iq", {"id": up["id"], "type": "get", "xmlns": "urn:xmpp:ping", "from": "s.whatsapp.net"}))
                elif kind == "disconnected":
                    mev = "disconnected"
                    w.stack.emitEvent(YowLayerEvent(YowNetworkLayer.EVENT_STATE_DISCONNECTED))
                elif kind == "restart":
                    mev = "restart"
                    w.boot()
                    nsent, nev, ncreated = 0, 0, 0
                elif kind == "consume":
                    offered = sorted(w.directory)
                    if not offered or not authed_now:
                        continue
                    kid = offered[int(arg) % len(offered)] if int(arg) < 5 else max(offered) + 50
                    mev = "consume %d" % kid
                    outs.append(_consume(w, kid, npeer))
                    npeer += 1
        except Exception as e:
            raised = e
        if mev is None:
            continue
        if kind == "authed":
            authed_now = True
        elif kind in ("connect", "disconnected", "restart"):
            authed_now = False
            w.inflight = [ui for ui in w.inflight if ui >= len(w.uploads) - sum(1 for o in outs if o.startswith("upload"))]
            # requests of an earlier connection are never answered by the server
        chk.hit("ev:" + kind)
        # uploads sent by this event
        for n in w.near.sent[nsent:]:
            if n.tag == "iq" and n["type"] == "set" and n.getChild("list") is not None:
                ids, pubs = [], {}
                for kn in n.getChild("list").getAllChildren():
                    kid = _id_of(kn.getChild("id").data)
                    ids.append(kid)
                    pubs[kid] = bytes(kn.getChild("value").data)
                w.uploads.append({"id": n["id"], "ids": ids, "pubs": pubs, "node": n})
                w.inflight.append(len(w.uploads) - 1)
                for kid in ids:
                    w.directory[kid] = pubs[kid]
                    w.offered_hist.append((kid, pubs[kid]))
                outs.append("upload:%d:%s" % (len(w.uploads), "+".join(str(i) for i in sorted(ids))))
                bad = _check_upload(w, n)
                if bad:
                    fails.append(oracle("C14:upload-contents", "history %s: upload #%d: %s" % (case["events"][:ei + 1], len(w.uploads), bad)))
        for e in w.near.events[nev:]:
            if e.getName().endswith("network.disconnect"):
                outs.append("disconnectRequest")
        if len(FakeDispatcher.created) > ncreated:
            outs.append("reconnect")
        if raised is not None:
            outs.append("raised")
        rows = w.db_rows()
        unsent = len(getattr(w.control, "_unsent_prekeys", []))
        state = "db=%s;tomb=%s;unsent=%d;passive=%d;reboot=%d" % (",".join("%d:%d" % (i, s) for i, s, _ in rows), ",".join(str(i) for i in sorted(w.tombstones)), unsent,
                                                          1 if w.stack.getProp(YowAuthenticationProtocolLayer.PROP_PASSIVE, False) else 0,
                                                          1 if getattr(w.control, "_reboot_connection", False) else 0)
        model = d.ask("pk ev " + mev)
        mouts, mstate = [x.strip() for x in model.split("|")]
        mo = sorted(_norm_upload(x) for x in mouts.split(",") if x)
        diverged = (sorted(outs) != mo or state != mstate) and not parted
        if parted:
            mo = sorted(outs)           # model and code have parted earlier: the real system runs on, only the oracles decide from here
        if diverged:
            fails.append(corr("history:" + kind, "event #%d %s of %s: impl=%s%s | %s   model=%s | %s" % (ei, mev, case["events"], sorted(outs),
                                                              " (%s: %s)" % (type(raised).__name__, str(raised)[:60]) if raised is not None else "", state, mo, mstate)))
        # ---- oracle on the real state (also when the model and the code have just parted: this is the search for a failing input)
        what = _oracle(w, rows)
        if what:
            fails.append(oracle(what[0], "history %s: after event #%d (%s): %s" % (case["events"][:ei + 1], ei, mev, what[1])))
            break
        if raised is not None and "raised" not in mo:
            # the handling of this event raises where the specification of the bookkeeping (the model) completes it: with this account the
            # keys concerned are never offered / confirmed / re-offered
            fails.append(oracle("C14:event-raises:%s" % kind, "history %s: handling %s raises %s: %s (account with registration id %#x)"
                                % (case["events"][:ei + 1], mev, type(raised).__name__, str(raised)[:80], getattr(getattr(w.control, "manager", None), "registration_id", 0) or 0)))
            break
        if diverged:
            parted = True
        if kind == "authed" and mev.endswith("1"):
            # an authenticated passive login must offer exactly the keys whose upload was never confirmed
            got = sorted(w.uploads[-1]["ids"]) if any(o.startswith("upload") for o in outs) else []
            elsewhere = set(i for ui in w.inflight[:-1 if got else None] for i in w.uploads[ui]["ids"])     # offered by another upload still in flight
            want = sorted(i for i, s, _ in rows if not s and i not in elsewhere)
            if got != want:
                extra = [i for i in got if i not in want]
                sig = "C14:confirmed-key-offered-again" if extra and all(i in got for i in want) else "C14:unconfirmed-not-reoffered"
                fails.append(oracle(sig, "history %s: unconfirmed keys %s, offered at this login: %s%s"
                                    % (case["events"][:ei + 1], want, got, " (keys %s were confirmed before)" % extra if extra else "")))
                break
    # id uniqueness over the whole history
    seen = {}
    for kid, pub in w.offered_hist:
        if kid in seen and seen[kid] != pub:
            fails.append(oracle("C14:key-id-reused-for-a-different-key", "history %s: key id %d was offered to the server with two different keys"
                                % (case["events"], kid)))
            break
        seen[kid] = pub
    return fails


def _norm_upload(x):
    if x.startswith("upload:"):
        _u, rid, ids = x.split(":")
        return "upload:%s:%s" % (rid, "+".join(sorted(ids.split("+"), key=int)) if ids else "")
    return x


def _check_upload(w, node):
    from axolotl.ecc.curve import Curve
    from axolotl.ecc.djbec import DjbECPublicKey
    mgr = w.control.manager
    ident = bytes(node.getChild("identity").data)
    if ident != bytes(mgr.identity.getPublicKey().serialize()[1:]):
        return "identity key in the upload is not the account's identity key"
    reg = _id_of(node.getChild("registration").data)
    if reg != mgr.registration_id:
        return "registration id %d, account's is %d" % (reg, mgr.registration_id)
    sk = node.getChild("skey")
    pub = bytes(sk.getChild("value").data)
    sig = bytes(sk.getChild("signature").data)
    try:
        ok = Curve.verifySignature(mgr.identity.getPublicKey().getPublicKey(), b"\x05" + pub, sig)
    except Exception as e:
        return "signature check raised %s" % e
    if not ok:
        return "the signed prekey's signature does not verify under the identity key"
    return None


def _consume(w, kid, npeer):
    """a fresh peer sends its first message using one-time prekey `kid` (as handed out by the server)"""
    from axolotl.ecc.djbec import DjbECPublicKey
    from axolotl.identitykey import IdentityKey
    from axolotl.sessionbuilder import SessionBuilder
    from axolotl.sessioncipher import SessionCipher
    from axolotl.state.prekeybundle import PreKeyBundle
    from axolotl.tests.inmemoryaxolotlstore import InMemoryAxolotlStore
    from yowsup.axolotl import exceptions
    mgr = w.control.manager
    if mgr is None:
        # consumption needs a running account: open the manager of the profile directly
        from yowsup.profile.profile import YowProfile
        mgr = YowProfile(w.name, w.config).axolotl_manager
    pub = w.directory.get(kid)
    if pub is None:
        # an id the server never had: take any valid key so that only the id is wrong
        pub = next(iter(w.directory.values()))
    up = w.uploads[-1]["node"]
    if npeer % 2 == 1:
        # every other peer fetched its bundle EARLIER: right after the first upload that offered this one-time key — the signed prekey (and its id)
        # of that upload, not of the latest one (a key request of the server in between makes the account upload again with a new signed prekey)
        for u in w.uploads:
            try:
                ids = [_id_of(k.getChild("id").data) for k in u["node"].getChild("list").getAllChildren()]
            except Exception:
                ids = []
            if kid in ids:
                up = u["node"]
                break
    sk = up.getChild("skey")
    bundle = PreKeyBundle(mgr.registration_id, 1, kid, DjbECPublicKey(pub), _id_of(sk.getChild("id").data),
                          DjbECPublicKey(bytes(sk.getChild("value").data)), bytes(sk.getChild("signature").data),
                          IdentityKey(DjbECPublicKey(bytes(up.getChild("identity").data))))
    peer_store = InMemoryAxolotlStore()
    SessionBuilder(peer_store, peer_store, peer_store, peer_store, "acct", 1).processPreKeyBundle(bundle)
    msg = SessionCipher(peer_store, peer_store, peer_store, peer_store, "acct", 1).encrypt(b"hello" + b"\x01")
    try:
        mgr.decrypt_pkmsg("peer%d" % npeer, msg.serialize(), True)
        w.consumed.add((kid, pub))
        w.directory.pop(kid, None)
        return "decryptOk:%d" % kid
    except exceptions.InvalidKeyIdException:
        if kid in w.directory and w.directory[kid] == pub and not any(k == kid for k, _p in w.consumed):
            # the server handed out a key the account offered and no first message has used yet, with the signed prekey of an upload that
            # offered it: "every key id offered ... stays available locally until a first message consumes it"
            w.unusable = getattr(w, "unusable", []) + [(kid, "the bundle of the %s upload that offered it" % ("latest" if up is w.uploads[-1]["node"] else "earlier"))]
        return "invalidKeyId:%d" % kid
    except exceptions.InvalidMessageException:
        return "invalidMessage:%d" % kid


def _oracle(w, rows):
    from axolotl.state.prekeyrecord import PreKeyRecord
    if getattr(w, "unusable", None):
        kid, how = w.unusable[0]
        return ("C14:offered-key-unusable", "one-time key %d was offered, is still on the server and unused, but a first message built from %s is refused "
                "with an invalid key id (a key the bundle names is no longer held locally)" % (kid, how))
    reused = set()
    first = {}
    for kid, pub in w.offered_hist:
        if kid in first and first[kid] != pub:
            reused.add(kid)     # reported separately (key-id-reused); per-id bookkeeping is ambiguous for such ids
        first.setdefault(kid, pub)
    have = {}
    for i, s, rec in rows:
        have[i] = (s, bytes(PreKeyRecord(serialized=rec).getKeyPair().getPublicKey().serialize()[1:]))
    # sent <=> confirmed
    for i, (s, pub) in have.items():
        if i in reused:
            continue
        conf = (i, pub) in w.confirmed
        if bool(s) != conf:
            return ("C14:sent-flag-vs-confirmation", "key %d is marked %s but the server %s an upload containing it"
                    % (i, "sent" if s else "pending", "confirmed" if conf else "never confirmed"))
    # every key the server may still hand out is available locally with the same key material
    for kid, pub in w.directory.items():
        if kid in reused:
            continue
        if kid not in have:
            return ("C14:offered-key-missing", "key id %d was offered to the server and never consumed, but is no longer in the store" % kid)
        if have[kid][1] != pub:
            return ("C14:offered-key-replaced", "key id %d in the store is not the key that was offered to the server" % kid)
    return None


def shrink(stream, case):
    if stream == "idenc":
        return
    ev = case["events"]
    for i in range(1, len(ev)):
        yield dict(case, events=ev[:i] + ev[i + 1:])
