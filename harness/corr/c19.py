"""C19  Account configuration — Model/Config.lean vs the real config transforms / ConfigManager /
StorageTools; oracle: every configuration survives both formats and all three load paths; a save
killed at any file operation leaves a loadable old-or-new configuration."""
import json
import os
import uuid

import boot  # noqa: F401
from core import corr, oracle
from lib.fstrace import Tracer

PID = "C19"
GEN = ["fileops"]
LEAN_MODULES = ["YowsupVerif.Props.C19"]
RULE = ("stream 'isspace': every code point < 0x3100 (+ samples above): Python's str.isspace vs the model's isSpace. stream 'keyval': random "
        "dictionaries of the real field names with values inside the format restriction -> real DictKeyValTransform.transform / reverse vs the "
        "Lean model's render / parse, round-trip oracle. stream 'keyval-raw': arbitrary text (comments, blanks, dashes in keys, missing '=') "
        "-> real reverse vs model parse. stream 'config': Config objects with a random subset of the 16 fields (unicode for JSON) x 2 formats x "
        "3 load paths (path with extension, path without extension = trial parse, profile name), incl. a never-used profile and save(dest=): "
        "the loaded configuration must equal the saved one, keys byte-identical. stream 'crash': the real save runs in a forked child that is "
        "killed before every traced file operation (also with a torn write); the parent must load the previous or the new configuration; the "
        "file's state is compared with the model run over the regenerated trace. distinct = distinct case.")
RULE += (" Route 'profile-inplace': the configuration object obtained from the profile is changed in place and handed back to write_config (as the noise layer does).")
RULE += (" Route 'reload-after-resave': load, save a same-length configuration at once, load again.")
RULE += (" Crash cases also with the temporary directory on another device than the profile storage (when the machine has one); the kernel's file-to-file copy (os.sendfile) is a kill point.")
ASSUMPTIONS = ["json.loads(json.dumps(d)) == d and base64 decode∘encode = id (stdlib)", "open(..,'w') truncates at open; os.replace is atomic; a killed process "
               "loses nothing that was written (no power loss)", "key=value format: values without '#', ';', line breaks or surrounding blanks (the property's restriction)"]

FIELDS = ["phone", "cc", "login", "password", "pushname", "id", "mcc", "mnc", "sim_mcc", "sim_mnc", "client_static_keypair",
          "server_static_public", "expid", "fdid", "edge_routing_info", "chat_dns_domain"]
BINARY = {"id", "expid", "edge_routing_info"}


def setup(chk):
    from yowsup.config.manager import ConfigManager
    from yowsup.config.transforms.dict_keyval import DictKeyValTransform
    chk.cm = ConfigManager()
    chk.kv = DictKeyValTransform()
    chk.base = os.path.join(os.environ["XDG_CONFIG_HOME"], "yowsup")


def cp(s):
    return ",".join(str(ord(c)) for c in s) or "-"


def uncp(t):
    return "" if t == "-" else "".join(chr(int(x)) for x in t.split(","))


def _text(r, unicode_ok, kv_safe):
    n = r.choice([0, 1, 2, 5, 12])
    al = "abcXYZ019 _-+/=:.," + ("#; \t" if not kv_safe else "")
    if unicode_ok:
        al += u"éßЖ中  😀\"\\"
    s = "".join(r.choice(al) for _ in range(n))
    if kv_safe:
        s = s.strip()
    if unicode_ok and n >= 2 and r.random() < 0.25:
        # a character that some line-splitting routines treat as a line boundary (the formats end an entry with "\n" only), in the interior
        k = r.randint(1, len(s) - 1) if len(s) >= 2 else 0
        if k:
            # (a carriage return is a line break of the key=value FILE — text mode reads it as one: C19_roundtrip_keyval_through_text_file — JSON escapes it)
            s = s[:k] + r.choice(u"\u2028\u2029\x85\x0b\x0c\x1c\x1d\x1e" + (u"" if kv_safe else u"\r")) + s[k:]
    return s


def gen_config(r, fmt):
    kv = fmt == "keyval"
    d = {}
    for f in FIELDS:
        if r.random() < 0.45:
            continue
        if f == "client_static_keypair":
            d[f] = bytes(r.randrange(256) for _ in range(64)).hex()
        elif f == "server_static_public":
            d[f] = bytes(r.randrange(256) for _ in range(32)).hex()
        elif f in BINARY:
            d[f] = bytes(r.randrange(256) for _ in range(r.choice([0, 1, 16, 20, 33]))).hex()
        elif f == "cc":
            d[f] = r.choice([1, 49, 358, "49"])
        elif f == "phone":
            d[f] = str(r.randrange(10 ** 6, 10 ** 12))
        elif f == "password":
            continue
        else:
            d[f] = _text(r, not kv or r.random() < 0.3, kv)
            if kv:
                d[f] = d[f].strip()
    return d


def build_config(d):
    from yowsup.config.v1.config import Config
    from consonance.structs.keypair import KeyPair
    from consonance.structs.publickey import PublicKey
    kw = {}
    for f, v in d.items():
        if f == "client_static_keypair":
            kw[f] = KeyPair.from_bytes(bytes.fromhex(v))
        elif f == "server_static_public":
            kw[f] = PublicKey(bytes.fromhex(v))
        elif f in BINARY:
            kw[f] = bytes.fromhex(v)
        else:
            kw[f] = v
    return Config(**kw)


def canon(cfg, as_str):
    """comparable view of a Config; as_str: the key=value format has no types, scalars compare by str()"""
    out = {}
    for f in FIELDS:
        v = getattr(cfg, f)
        if v is None:
            continue
        if f == "client_static_keypair":
            v = (bytes(v.private.data) + bytes(v.public.data)).hex()
        elif f == "server_static_public":
            v = bytes(v.data).hex()
        elif f in BINARY:
            v = bytes(v).hex()
        elif as_str:
            v = str(v)
        out[f] = v
    return out


def cases(chk):
    r = chk.rng
    yield "isspace", {"lo": 0, "hi": 0x3100}
    yield "isspace", {"lo": 0xFE00, "hi": 0xFF10}
    for fmt in ("json", "keyval"):
        for how in ("path-ext", "path-noext", "profile", "fresh-profile", "dest", "profile-resave", "profile-inplace", "reload-after-resave", "dest-default-type"):
            yield "config", {"fmt": fmt, "how": how, "cfg": {"phone": "491234", "cc": 49, "client_static_keypair": "11" * 64, "pushname": "yo"}}
    yield "config", {"fmt": "keyval", "how": "profile-libsave", "cfg": {"phone": "491234", "cc": 49, "pushname": "yo"}}
    yield "config", {"fmt": "json", "how": "profile-libsave", "cfg": {"phone": "491234", "cc": 49, "pushname": "yo"}}
    for i, ch in enumerate(u"\u2028\u2029\x85\x0b\x0c\x1c\x1d\x1e"):
        for fmt in ("json", "keyval"):
            yield "config", {"fmt": fmt, "how": ["path-ext", "path-noext", "profile"][i % 3], "cfg": {"phone": "491234", "cc": 49, "client_static_keypair": "66" * 64,
                                                                                              "pushname": u"Alice" + ch + u"cc=7", "fdid": u"a" + ch + u"b"}}
    for fmt in ("json", "keyval"):
        for via in ("profile", "manager"):
            yield "config", {"fmt": fmt, "how": "profile-both", "via": via, "cfg": {"phone": "491234", "cc": 49, "client_static_keypair": "33" * 64, "pushname": "both"}}
    # text values that stress the file encoding: astral characters, Latin-1, an unpaired surrogate (JSON escapes it); saved through the
    # library, loaded again here AND by a process that runs with the C locale
    for how in ("profile-libsave", "dest", "profile"):
        for pn in (u"caf\xe9", u"\u0416\u4e2d", u"smile \U0001f600", u"half \ud83d!", u"\udc00", u"a\u2028b"):
            yield "config", {"fmt": "json", "how": how, "cfg": {"phone": "491234", "cc": 49, "client_static_keypair": "22" * 64, "pushname": pn}, "foreign": 1}
    for k in range(0, 8):
        for oldfmt in ("json", "keyval"):
            yield "crash", {"kill": k, "torn": 0, "fresh": 0, "via": "profile", "oldfmt": oldfmt}
            yield "crash", {"kill": k, "torn": 0, "fresh": k % 2, "via": "profile" if k % 3 else "manager", "oldfmt": oldfmt, "then_save": 1}
            yield "crash", {"kill": k, "torn": 1, "fresh": 0, "via": "profile", "oldfmt": oldfmt}
    for k in range(0, 8):
        yield "crash", {"kill": k, "torn": 0, "fresh": 0}
        yield "crash", {"kill": k, "torn": 1, "fresh": 0}
        # the operation FAILS instead (disk full, quota, I/O error): the exception unwinds through the save's own handlers
        yield "crash", {"kill": k, "torn": 0, "fresh": 0, "fail": 1, "via": "profile" if k % 2 else "manager"}
        yield "crash", {"kill": k, "torn": 1, "fresh": 0, "fail": 1, "via": "manager" if k % 2 else "profile", "oldfmt": "keyval" if k % 3 == 0 else "json"}
        yield "crash", {"kill": k, "torn": 0, "fresh": 1}
        # the temporary directory on another device than the profile storage
        yield "crash", {"kill": k, "torn": 0, "fresh": 0, "tmpdev": 1, "via": "profile" if k % 2 else "manager"}
        yield "crash", {"kill": k, "torn": 1, "fresh": 0, "tmpdev": 1, "via": "manager" if k % 2 else "profile"}
    for _ in range(chk.scale(250, 8000)):
        d = {}
        for f in r.sample(FIELDS + ["__version__"], r.randint(0, 9)):
            d[f] = _text(r, r.random() < 0.3, True)
        yield "keyval", {"dict": d}
    for _ in range(chk.scale(250, 8000)):
        lines = []
        for _i in range(r.randint(0, 6)):
            k = r.random()
            if k < 0.2:
                lines.append(r.choice(["", "  ", "# c", ";x", " #y", "\t"]))
            elif k < 0.3:
                lines.append(r.choice(["novalue", "{", "a b", "=", "=v", "k="]))
            else:
                lines.append("%s%s%s=%s%s%s" % (r.choice(["", " "]), r.choice(["a", "a-b", "cc", "push_name", "x y"]), r.choice(["", " ", "\t"]),
                                                r.choice(["", " "]), _text(r, r.random() < 0.2, False), r.choice(["", " ", "\r", " # c", ";z"])))
        yield "keyval-raw", {"text": "\n".join(lines)}
    # large configurations (a long push name, a long routing blob): serialised sizes around every power of two from 512 B to 128 KiB — a
    # reader that looks at only part of the file shows here
    for i, size in enumerate([500, 1000, 1100, 2000, 4000, 4200, 8100, 8300, 16500, 33000, 66000, 131500]):
        for fmt in ("json", "keyval"):
            cfg = {"phone": "491234", "cc": 49, "client_static_keypair": "44" * 64, "server_static_public": "55" * 32}
            if i % 2:
                cfg["edge_routing_info"] = (bytes(range(256)) * (size // 256 + 1))[:size // 3].hex()
            else:
                cfg["pushname"] = ("long push name %d " % size) * (size // 18 + 1)
                cfg["pushname"] = cfg["pushname"][:size].strip()
            for how in (["path-noext", "path-ext", "profile"] if size < 20000 or not chk.quick() else ["path-noext"]):
                yield "config", {"fmt": fmt, "how": how, "cfg": cfg}
    for _ in range(chk.scale(200, 6000)):
        fmt = r.choice(["json", "keyval"])
        how = r.choice(["path-ext", "path-noext", "profile", "fresh-profile", "dest", "profile-resave", "profile-both", "profile-inplace", "reload-after-resave", "dest-default-type"])
        # (a profile holding both files is saved in whichever format the library prefers: values from the key=value format's domain)
        yield "config", dict({"fmt": fmt, "how": how, "cfg": gen_config(r, "keyval" if how == "profile-both" else fmt)}, **({"via": r.choice(["profile", "manager"])} if how == "profile-both" else {}))


def nontrivial(stream, case):
    return (stream, repr(case))


def _kv_model_parse(chk, text):
    out = chk.driver.ask("cfg parse %s" % cp(text))
    if out == "err":
        return None
    toks = out.split()[1:]
    return [(uncp(toks[i]), uncp(toks[i + 1])) for i in range(0, len(toks), 2)]


def run_case(chk, stream, case):
    fails = []
    if stream == "isspace":
        bad = []
        for c in range(case["lo"], case["hi"]):
            if 0xD800 <= c <= 0xDFFF:
                continue
            if (chr(c).isspace()) != (chk.driver.ask("cfg isspace %d" % c) == "1"):
                bad.append(c)
        chk.hit("isspace-range")
        if bad:
            fails.append(corr("isspace", "code points %s: str.isspace differs from the model" % bad[:10]))
        return fails
    if stream == "keyval":
        d = case["dict"]
        text = chk.kv.transform(d)
        toks = []
        for k in sorted(d):
            toks += [cp(k), cp(d[k])]
        mtext = uncp(chk.driver.ask("cfg render " + " ".join(toks)) if toks else "-")
        chk.hit("keyval:n=%d" % len(d))
        if text != mtext:
            fails.append(corr("keyval:render", "dict %r: impl=%r model=%r" % (d, text, mtext)))
        back = chk.kv.reverse(text)
        mback = _kv_model_parse(chk, text)
        if mback is None or list(back.items()) != mback:
            fails.append(corr("keyval:parse", "text %r: impl=%r model=%r" % (text, back, mback)))
        if back != d:
            fails.append(oracle("C19:keyval-roundtrip", "dict %r is read back as %r" % (d, back)))
        return fails
    if stream == "keyval-raw":
        text = case["text"]
        try:
            back = list(chk.kv.reverse(text).items())
        except Exception:
            back = None
        mback = _kv_model_parse(chk, text)
        chk.hit("raw:" + ("ok" if back is not None else "raises"))
        if back != mback:
            fails.append(corr("keyval-raw", "text %r: impl=%r model=%r" % (text, back, mback)))
        return fails
    if stream == "config":
        return run_config(chk, case)
    if stream == "crash":
        return run_crash(chk, case)
    raise ValueError(stream)


def run_config(chk, case):
    fails = []
    cm = chk.cm
    fmt, how = case["fmt"], case["how"]
    stype = cm.TYPE_JSON if fmt == "json" else cm.TYPE_KEYVAL
    cfg = build_config(case["cfg"])
    want = canon(cfg, fmt == "keyval")
    name = "p-" + uuid.uuid4().hex
    pdir = os.path.join(chk.base, name)
    ext = ".json" if fmt == "json" else ".yo"
    chk.hit("config:%s:%s" % (fmt, how))
    try:
        if how == "profile-libsave":
            cm.save(name, cfg, stype)          # the library chooses the file name itself
            loaded = cm.load(name)
        elif how in ("profile", "fresh-profile"):
            if how == "profile":
                os.makedirs(pdir, exist_ok=True)
            if fmt == "keyval":
                # the library's own save names the profile file config.json whatever the format; a key=value
                # profile file is config.yo (that is what load looks for): written from config_to_str
                os.makedirs(pdir, exist_ok=True)
                with open(os.path.join(pdir, "config.yo"), "w") as f:
                    f.write(cm.config_to_str(cfg, stype))
            else:
                cm.save(name, cfg, stype)
            loaded = cm.load(name)
        elif how == "profile-resave":
            # an existing profile in this format, then the library's own save of a changed configuration (YowProfile.write_config)
            from yowsup.profile.profile import YowProfile
            os.makedirs(pdir, exist_ok=True)
            oldcfg = build_config({"phone": "491111", "cc": 49, "client_static_keypair": "aa" * 64, "pushname": "old"})
            with open(os.path.join(pdir, "config" + ext), "w") as f:
                f.write(cm.config_to_str(oldcfg, stype))
            YowProfile(name).write_config(cfg)
            loaded = YowProfile(name).config
        elif how == "profile-inplace":
            # what the library itself does when it learns something (the noise layer: the server's key): take the profile's configuration object,
            # change it IN PLACE, hand the same object back to write_config; a fresh load must show the change
            from yowsup.profile.profile import YowProfile
            os.makedirs(pdir, exist_ok=True)
            oldcfg = build_config({"phone": "491111", "cc": 49, "client_static_keypair": "aa" * 64, "pushname": "old"})
            with open(os.path.join(pdir, "config" + ext), "w") as f:
                f.write(cm.config_to_str(oldcfg, stype))
            prof = YowProfile(name)
            held = prof.config
            for k_, v_ in vars(cfg).items():
                try:
                    setattr(held, k_.lstrip("_"), v_)
                except Exception:
                    vars(held)[k_] = v_
            for k_ in list(vars(held)):
                if k_ not in vars(cfg):
                    del vars(held)[k_]
            prof.write_config(held)
            loaded = YowProfile(name).config
        elif how == "reload-after-resave":
            # one process: load (whatever the library keeps of a file it has read), save another configuration of the SAME length under the same
            # name right away (new key material has the old length; the same clock second), load again: the second load shows the second save
            os.makedirs(pdir, exist_ok=True)
            import copy
            first = copy.deepcopy(cfg)
            for k_, v_ in list(vars(first).items()):
                if isinstance(v_, str) and v_ and k_.lstrip("_") not in ("phone", "cc", "login"):
                    vars(first)[k_] = v_[::-1] if v_[::-1] != v_ else v_          # same length, other content
            cm.save(name, first, stype)
            cm.load(name)
            from yowsup.config.manager import ConfigManager
            ConfigManager().load(name)
            cm.save(name, cfg, stype)
            loaded = ConfigManager().load(name)
        elif how == "profile-both":
            # a profile that holds a file in BOTH formats (left by an earlier library version, or by an explicit save in the other format), then
            # the library's own plain save: whichever file the save goes to, loading by profile name must read that one
            from yowsup.profile.profile import YowProfile
            os.makedirs(pdir, exist_ok=True)
            oldcfg = build_config({"phone": "491111", "cc": 49, "client_static_keypair": "aa" * 64, "pushname": "old"})
            older = build_config({"phone": "491111", "cc": 49, "client_static_keypair": "ab" * 64, "pushname": "older"})
            first, second = ((".json", cm.TYPE_JSON), (".yo", cm.TYPE_KEYVAL))[::1 if fmt == "json" else -1]
            for (e_, t_), c_ in ((first, older), (second, oldcfg)):
                with open(os.path.join(pdir, "config" + e_), "w") as f:
                    f.write(cm.config_to_str(c_, t_))
            if case.get("via", "profile") == "profile":
                YowProfile(name).write_config(cfg)
                loaded = YowProfile(name).config
            else:
                cm.save(name, cfg)
                loaded = cm.load(name)
            want = canon(cfg, True)
            fmt = "keyval"
        elif how == "dest-default-type":
            # an export to an explicit .json path, format left to the library, while a profile of that name exists in the OTHER format: what is
            # written to the path loads back from the path
            os.makedirs(pdir, exist_ok=True)
            oldcfg = build_config({"phone": "491111", "cc": 49, "client_static_keypair": "aa" * 64, "pushname": "old"})
            with open(os.path.join(pdir, "config.yo" if fmt == "json" else "config.json"), "w") as f:
                f.write(cm.config_to_str(oldcfg, cm.TYPE_KEYVAL if fmt == "json" else cm.TYPE_JSON))
            path = os.path.join(pdir, "export.json")
            cm.save(name, cfg, dest=path)
            loaded = cm.load(path)
            want = canon(cfg, False)
            fmt = "json"
        elif how == "dest":
            os.makedirs(pdir, exist_ok=True)
            path = os.path.join(pdir, "saved" + ext)
            cm.save(name, cfg, stype, dest=path)
            loaded = cm.load(path)
        else:
            os.makedirs(pdir, exist_ok=True)
            path = os.path.join(pdir, "conf" + (ext if how == "path-ext" else ""))
            with open(path, "w") as f:
                f.write(cm.config_to_str(cfg, stype))
            loaded = cm.load(path)
    except Exception as e:
        return [oracle("C19:%s:raises:%s" % (how, type(e).__name__), "config %r (%s, %s): %s: %s" % (case["cfg"], fmt, how, type(e).__name__, e))]
    if loaded is None:
        return [oracle("C19:%s:not-found" % how, "config %r (%s, %s): load returned None" % (case["cfg"], fmt, how))]
    got = canon(loaded, fmt == "keyval")
    if got != want:
        diff = {k: (want.get(k), got.get(k)) for k in set(want) | set(got) if want.get(k) != got.get(k)}
        fails.append(oracle("C19:%s:differs" % fmt, "config %r (%s, %s): fields differ after reload: %r" % (case["cfg"], fmt, how, diff)))
    if case.get("foreign") and not fails:
        # the same profile / file loaded by a process whose default text encoding is not UTF-8 (C locale)
        import subprocess
        import sys
        target = os.path.join(pdir, "config.json") if how in ("profile-libsave", "profile", "fresh-profile") else path
        code = ("import sys, json; sys.path.insert(0, %r); import boot\n"
                "from yowsup.config.manager import ConfigManager\n"
                "c = ConfigManager().load(%r)\n"
                "print(json.dumps(None if c is None else c.pushname))" % (os.path.dirname(os.path.dirname(os.path.abspath(__file__))), target))
        env = dict(os.environ, LC_ALL="C", LANG="C", PYTHONUTF8="0", PYTHONCOERCECLOCALE="0", PYTHONIOENCODING="ascii:backslashreplace")
        p = subprocess.run([sys.executable, "-c", code], env=env, stdout=subprocess.PIPE, stderr=subprocess.PIPE, timeout=60)
        chk.hit("config:foreign-locale")
        out = p.stdout.decode("ascii", "replace").strip().splitlines()
        try:
            back = json.loads(out[-1]) if out else None
        except Exception:
            back = None
        if p.returncode != 0 or back != case["cfg"].get("pushname"):
            fails.append(oracle("C19:%s:foreign-locale" % fmt, "config %r (%s, %s): a process running with the C locale loads pushname %r (exit %d: %s)"
                                % (case["cfg"], fmt, how, back, p.returncode, p.stderr.decode("ascii", "replace").strip().splitlines()[-1:] )))
    return fails


def _other_device_dir(base):
    """a writable directory on another device than `base` (None if this machine has none)"""
    import tempfile
    try:
        dev = os.stat(base).st_dev
    except OSError:
        return None
    for cand in ("/dev/shm", "/run/shm", "/var/tmp", "/tmp", os.path.expanduser("~")):
        try:
            if os.path.isdir(cand) and os.access(cand, os.W_OK) and os.stat(cand).st_dev != dev:
                d = os.path.join(cand, "c19-tmpdev-%d" % os.getuid())
                os.makedirs(d, exist_ok=True)
                return d
        except OSError:
            continue
    return None


def run_crash(chk, case):
    fails = []
    cm = chk.cm
    name = "c-" + uuid.uuid4().hex
    pdir = os.path.join(chk.base, name)
    keyval = case.get("oldfmt") == "keyval"
    final = os.path.join(pdir, "config.yo" if keyval else "config.json")
    old = build_config({"phone": "491111", "cc": 49, "client_static_keypair": "aa" * 64, "pushname": "old"})
    new = build_config({"phone": "491111", "cc": 49, "client_static_keypair": "bb" * 64, "pushname": "new", "server_static_public": "cc" * 32})
    if not case["fresh"]:
        os.makedirs(pdir, exist_ok=True)
        with open(final, "w") as f:
            f.write(cm.config_to_str(old, cm.TYPE_KEYVAL if keyval else cm.TYPE_JSON))
    other = _other_device_dir(chk.base) if case.get("tmpdev") else None
    if case.get("tmpdev"):
        chk.hit("tmpdev:" + ("available" if other else "unavailable"))
        if other is None:
            return fails
    pid = os.fork()
    if pid == 0:
        code = 0
        try:
            if other is not None:
                # the directory for temporary files is on ANOTHER device than the profile storage (a tmpfs /tmp, a profile on a mounted
                # volume): a save that prepares the new content there cannot move it into place atomically
                import tempfile
                tempfile.tempdir = other
                os.environ["TMPDIR"] = other
            with Tracer(final, kill_at=case["kill"], torn=bool(case["torn"]), fail=bool(case.get("fail"))):
                if case.get("via") == "profile":
                    from yowsup.profile.profile import YowProfile
                    YowProfile(name).write_config(new)
                else:
                    cm.save(name, new)
        except BaseException:
            code = 9
        finally:
            os._exit(code)
    _p, status = os.waitpid(pid, 0)
    code = os.WEXITSTATUS(status)
    killed = code == 17
    chk.hit("crash:killed" if killed else "crash:exit%d" % code, "kill@%d" % case["kill"])
    # model: content class of the config file after k operations of the regenerated trace
    out = chk.driver.ask("cfg crash %s %d" % ("fresh" if case["fresh"] else "existing", case["kill"]))
    try:
        with open(final) as f:
            content = f.read()
    except OSError:
        content = None
    ty = cm.TYPE_KEYVAL if keyval else cm.TYPE_JSON
    cls = ("absent" if content is None else "old" if content == cm.config_to_str(old, ty) else "new" if content == cm.config_to_str(new, ty)
           else "empty" if content == "" else "other")
    if out == "raises":
        mcls = None
    else:
        mcls = out.split()[1]
    if killed and not case["torn"] and mcls is not None and cls != mcls:
        fails.append(corr("crash:file-state", "killed before file operation #%d (%s profile): config file is %s, model says %s"
                          % (case["kill"], "fresh" if case["fresh"] else "existing", cls, mcls)))
    if code == 9 and mcls is not None and int(out.split()[0]) > case["kill"] and not case.get("fail"):
        fails.append(corr("crash:child", "save raised in the child although the traced save did not"))
    # oracle
    try:
        loaded = cm.load(name)
    except Exception as e:
        loaded = e
    want_old, want_new = canon(old, keyval), canon(new, keyval)
    ok = False
    if isinstance(loaded, Exception) or loaded is None:
        # acceptable only if there was no previous configuration and the save did not complete
        ok = bool(case["fresh"]) and killed and cls == "absent"
        got = repr(loaded)
    else:
        got = canon(loaded, keyval)
        ok = got == want_new or (got == want_old and not case["fresh"])
        if not killed and code == 0:
            ok = got == want_new
    if case.get("fail"):
        # the operation failed (disk full) and the save went on as it is written: an exception is the right answer; whatever it did afterwards,
        # the profile loads as the previous or as the new configuration
        if not ok and not (bool(case["fresh"]) and (isinstance(loaded, Exception) or loaded is None)):
            fails.append(oracle("C19:failed-write-not-atomic", "save%s whose file operation #%d fails (no space left on device%s; %s%s profile): the profile now loads as %s (file: %s)"
                                % (" through YowProfile.write_config" if case.get("via") == "profile" else "", case["kill"], ", half of the data written" if case["torn"] else "",
                                   "fresh" if case["fresh"] else "existing", " key=value" if keyval else "", str(got)[:200], cls)))
    elif code == 9:
        fails.append(oracle("C19:save-raises" + (":fresh-profile" if case["fresh"] else ""),
                            "saving the configuration of a %s profile raises" % ("never-used" if case["fresh"] else "used")))
    elif not ok:
        fails.append(oracle("C19:crash-not-atomic", "save%s killed before file operation #%d%s (%s%s profile): the profile now loads as %s (file: %s)"
                            % (" through YowProfile.write_config" if case.get("via") == "profile" else "", case["kill"], " with a torn write" if case["torn"] else "",
                               "fresh" if case["fresh"] else "existing", " key=value" if keyval else "", str(got)[:200], cls)))
    if not fails and killed and case.get("then_save"):
        # life goes on after the crash: the next, ordinary save of a SHORTER configuration (whatever the dead process left lying around —
        # a temporary file, a half-written file — must not leak into it)
        later = build_config({"phone": "491111", "cc": 49, "client_static_keypair": "cc" * 64, "pushname": "n"})
        try:
            if case.get("via") == "profile":
                from yowsup.profile.profile import YowProfile
                YowProfile(name).write_config(later)
            else:
                cm.save(name, later)
            loaded2 = cm.load(name)
            got2 = None if loaded2 is None else canon(loaded2, keyval)
        except Exception as e:
            got2 = "%s: %s" % (type(e).__name__, str(e)[:80])
        chk.hit("crash:then-save")
        if got2 != canon(later, keyval):
            fails.append(oracle("C19:save-after-crash-corrupt", "save killed before file operation #%d (%s%s profile), then an ordinary save of a shorter configuration: the profile "
                                "loads as %s" % (case["kill"], "fresh" if case["fresh"] else "existing", " key=value" if keyval else "", str(got2)[:200])))
    return fails


def shrink(stream, case):
    if stream == "config":
        d = case["cfg"]
        for k in list(d):
            c = dict(d)
            del c[k]
            yield dict(case, cfg=c)
    if stream == "keyval":
        d = case["dict"]
        for k in list(d):
            c = dict(d)
            del c[k]
            yield {"dict": c}
