"""C11  Concurrent senders — Model/Conc.lean (with the lock configuration regenerated from the source) vs REAL threads
sending through the real coder / noise / segments layers under a cooperative scheduler (lib/coop.py): every lock
operation, the encryption, the stream's put / get and each network write is a scheduling point, so a schedule is a
reproducible list of choices.  The completed operations of each run are replayed on the model (same wire expected);
the byte stream at the network boundary is read by a strict in-order peer (the property itself)."""
import struct

import boot  # noqa: F401
from core import corr, oracle
from lib import coop, concstack

PID = "C11"
GEN = ["conccfg", "sendbufcfg", "stalewritecfg"]
LEAN_MODULES = ["YowsupVerif.Props.C11", "YowsupVerif.Props.C11Stale"]
RULE = ("2-4 sender threads with 1-4 stanzas each through the real coder, noise (counting cipher stand-in), segments layers; schedules chosen at random at "
        "every scheduling point (lock acquire / release, encryption, stream put / get, network write); thorough: additionally ALL schedules of 2 threads x 1-2 "
        "stanzas by depth-first enumeration.  stream 'reconnect': sender threads and a network thread that loses the connection and completes a new login "
        "while senders are inside their sends; the second connection must carry frames of the second session only; the run is replayed on Model/StaleWrite. distinct = distinct (work, schedule).")
RULE += (" stream 'sockwrite': the real socket dispatcher over loopback TCP to a slow reader, frames up to 3 MiB (thorough 8 MiB) from 1-4 threads writing under one lock: the peer reads every frame whole.")
RULE += (" stream 'backlog': real network layer and asyncore dispatcher (socket operations stubbed): frames pile up, the connection is lost, reconnect and send — the new connection carries only its own bytes.")
ASSUMPTIONS = ["CPython switches threads only between bytecodes; the scheduling points cover every operation on shared state of the data path (locks, cipher counter, "
               "stream queue, socket write) — a switch elsewhere is equivalent to one at the next point",
               "consonance's transport cipher is replaced by a stand-in that takes the next counter and writes the segment exactly where the real one does "
               "(WANoiseProtocol.send -> transport.send -> stream.write_segment)"]


def setup(chk):
    coop.install()


def cases(chk):
    r = chk.rng
    corpus = [
        {"work": [[1], [2]], "seed": 1}, {"work": [[1, 2], [3]], "seed": 2}, {"work": [[1], [2], [3]], "seed": 3}, {"work": [[1, 2, 3], [4, 5], [6], [7]], "seed": 4},
    ]
    for c in corpus:
        yield "random", c
    # a refused send among concurrent senders
    for _ in range(chk.scale(120, 3000)):
        nt = r.randint(2, 4)
        sid = [0]

        def fresh2():
            sid[0] += 1
            return sid[0] if r.random() < 0.65 else -sid[0]
        work = [[fresh2() for _i in range(r.randint(1, 3))] for _t in range(nt)]
        if not any(s_ < 0 for t in work for s_ in t):
            work[0][0] = -abs(work[0][0])
        yield "failing", {"work": work, "seed": r.randrange(1 << 30), "entry": r.choice(["top", "coder", "coder"])}
    # frames still waiting in the dispatcher when the connection is lost, then a reconnect on the same stack
    for first, accept in (([300, 40, 1000], 0), ([70000], 1000), ([5], 0), ([100, 100], 1 << 20)):
        yield "backlog", {"first": first, "accept": accept, "second": [7, 300]}
    # the socket dispatcher over a real TCP connection (loopback) to a peer that reads slowly: frames larger than what the kernel takes in one go,
    # from one sender and from several; every byte handed to sendData arrives, each frame in one piece
    for sizes, threads in (([1, 70000, 3 << 20, 5, 2 << 20], 1), ([3 << 20, 3 << 20, 3 << 20], 3), ([1 << 20] * 4 + [9], 2)) if chk.quick() else (
            ([1, 70000, 3 << 20, 5, 2 << 20], 1), ([3 << 20, 3 << 20, 3 << 20], 3), ([1 << 20] * 4 + [9], 2), ([8 << 20, 100, 8 << 20], 1), ([1 << 19] * 12, 4)):
        yield "sockwrite", {"sizes": sizes, "threads": threads}
    for _ in range(chk.scale(150, 1500)):
        nt = r.randint(2, 4)
        sid = [0]

        def fresh():
            sid[0] += 1
            return sid[0]
        yield "random", {"work": [[fresh() for _i in range(r.randint(1, 4))] for _t in range(nt)], "seed": r.randrange(1 << 30)}
    # line-level preemption inside the coder, the layer base class and the noise layers: a switch between ANY two source lines
    for _ in range(chk.scale(80, 500)):
        nt = r.randint(2, 3)
        sid = [0]

        def fresh2():
            sid[0] += 1
            return sid[0]
        yield "preempt", {"work": [[fresh2() for _i in range(r.randint(1, 3))] for _t in range(nt)], "seed": r.randrange(1 << 30), "prob": r.choice([0.05, 0.2, 0.5]),
                          "entry": r.choice(["top", "coder", "coder"]), "inbound": r.choice([0, 2, 3]), "other_login": r.choice([0, 0, 2, 4])}
    # senders stalled inside their send while the connection is lost and a new login completes
    for _ in range(chk.scale(120, 3000)):
        nt = r.randint(1, 3)
        sid = [0]

        def fresh3():
            sid[0] += 1
            return sid[0]
        yield "reconnect", {"work": [[fresh3() for _i in range(r.randint(1, 3))] for _t in range(nt)], "delay": r.randint(0, 12), "seed": r.randrange(1 << 30)}
        if _ % 2 == 0:
            # ... with a login that takes a while (senders call during the handshake; the worker thread completes it)
            yield "reconnect", {"work": [[fresh3() for _i in range(r.randint(2, 4))] for _t in range(nt)], "delay": r.randint(0, 6), "seed": r.randrange(1 << 30),
                                "handshake": r.choice([1, 2, 4, 8, 15])}
    for _ in range(chk.scale(60, 1500)):
        yield "dispatcher", {"frames": [r.randint(1, 40) for _i in range(r.randint(1, 5))], "flushes": r.randint(1, 6), "seed": r.randrange(1 << 30)}
    if not chk.quick():
        for work in ([[1], [2]], [[1, 2], [3]], [[1], [2], [3]]):
            yield "exhaustive", {"work": work}


def nontrivial(stream, case):
    return repr(case)


def node_for(sid):
    from yowsup.structs import ProtocolTreeNode
    if sid < 0:
        # a stanza the session below refuses (stream 'failing')
        return ProtocolTreeNode("iq", {"id": "s%d" % sid, "type": "get", "xmlns": "w:p"}, [ProtocolTreeNode("ping", data=b"REFUSEME")])
    return ProtocolTreeNode("iq", {"id": "s%d" % sid, "type": "get", "xmlns": "w:p"}, [ProtocolTreeNode("ping", data=b"x" * (sid % 7))])


def execute(work, choose, preempt=None, entry="top", inbound=0, other_login=0):
    """run the work with real threads; returns (coop, bottom writes, locks of interest).  entry="coder": the threads call the coder layer's
    send directly, as YowStack.send does on a stack whose topmost layer is the coder (no layer lock above the encoder)"""
    del coop.LOCKS[:]
    stack, top, bottom, L = concstack.build()
    if entry == "coder":
        top = L["coder"]
    c = coop.Coop()
    if preempt is not None:
        c.preempt_lines(("yowsup/layers/coder/", "yowsup/layers/__init__.py", "yowsup/layers/noise/"), preempt[0], preempt[1])
    for stanzas in work:
        def body(stanzas=stanzas):
            for sid in stanzas:
                if sid < 0:
                    try:
                        top.send(node_for(sid))
                    except concstack.SendRefused:
                        pass            # the failure is reported to this sender; the others go on
                else:
                    top.send(node_for(sid))
        c.spawn(body)
    if inbound:
        # the connection's reader thread: inbound frames of other lengths come up through the same layers while the senders are at work
        from yowsup.layers.coder.encoder import WriteEncoder
        from yowsup.layers.coder.tokendictionary import TokenDictionary
        from yowsup.structs import ProtocolTreeNode

        def reader():
            for k in range(inbound):
                node = ProtocolTreeNode("iq", {"id": "in%d" % k, "type": "result"}, [ProtocolTreeNode("x", data=b"y" * (40 + 37 * k))])
                body_ = b"\x01" + struct.pack(">I", k) + bytes(bytearray(WriteEncoder(TokenDictionary()).protocolTreeNodeToBytes(node)))
                coop.point()
                bottom.receive(struct.pack(">I", len(body_))[1:] + body_)
        c.spawn(reader)
    if other_login:
        # another account's stack in the same process logs in meanwhile: its noise layer switches ITS segment layer's length prefix off for the
        # raw prologue and on again (YowNoiseLayer.on_auth) — a property of that stack, not of this one
        from yowsup.layers.noise.layer_noise_segments import YowNoiseSegmentsLayer
        stack2, _t2, _b2, _L2 = concstack.build()

        def other():
            for _k in range(other_login):
                coop.point()
                stack2.setProp(YowNoiseSegmentsLayer.PROP_ENABLED, False)
                coop.point()
                coop.point()
                stack2.setProp(YowNoiseSegmentsLayer.PROP_ENABLED, True)
        c.spawn(other)
    err = None
    try:
        c.run(choose)
    except coop.Deadlock as e:
        err = e
    return c, bottom.writes, L, err


def model_schedule(c, L):
    """thread ids in the order in which the operations the model knows completed"""
    out = []
    for idx, tag in c.trace:
        if isinstance(tag, tuple):
            kind, lock = tag
            # the locks the model knows: the layers' own toLower locks.  (The noise layer's stream lock — check-and-write against the replacement
            # of the stream at a disconnect — is taken right before the layer lock and released right after it: it only removes interleavings.)
            if lock is getattr(L["coder"], "lock", None) or lock is getattr(L["noise"], "lock", None):
                out.append(idx)
        elif tag in ("enc", "put", "get", "write"):
            out.append(idx)
    return out


def peer_read(writes, expected):
    """the strict in-order peer: returns (list of (counter, stanza id), error or None)"""
    frames = []
    i = 0
    n = 0
    while i < len(writes):
        h = writes[i]
        if len(h) != 3:
            return frames, "expected a 3-byte length header at write #%d, got %d bytes" % (i, len(h))
        if i + 1 >= len(writes):
            return frames, "header without payload at the end"
        p = writes[i + 1]
        size = struct.unpack(">I", b"\x00" + h)[0]
        if len(p) != size:
            return frames, "header announces %d bytes, the next write has %d (write #%d)" % (size, len(p), i + 1)
        if p[:1] != b"\x01":
            return frames, "payload #%d is not a ciphertext" % n
        ctr = struct.unpack(">I", p[1:5])[0]
        if ctr != n:
            return frames, "frame #%d on the wire was encrypted with counter %d: the peer cannot decrypt it" % (n, ctr)
        sid = expected.get(bytes(p[5:]))
        if sid is None:
            return frames, "frame #%d does not decrypt to a stanza that was sent" % n
        frames.append((ctr, sid))
        n += 1
        i += 2
    return frames, None


def check_run(chk, case, c, writes, L, err, label):
    from yowsup.layers.coder.encoder import WriteEncoder
    from yowsup.layers.coder.tokendictionary import TokenDictionary
    fails = []
    work = case["work"]
    enc = WriteEncoder(TokenDictionary())
    expected = dict((bytes(bytearray(enc.protocolTreeNodeToBytes(node_for(s)))), s) for t in work for s in t)
    ctx = "threads %s, schedule %s" % (work, c.choices if len(c.choices) < 400 else c.choices[:400] + ["…"])
    if err is not None:
        fails.append(oracle("C11:deadlock", "%s: %s" % (ctx, err)))
        return fails
    for t in c.tasks:
        if t.exc is not None:
            fails.append(oracle("C11:sender-raised:" + type(t.exc).__name__, "%s: sender thread %d raised %r" % (ctx, t.idx, t.exc)))
            return fails
    frames, perr = peer_read(writes, expected)
    if perr:
        fails.append(oracle("C11:stream-corrupt", "%s: %s" % (ctx, perr)))
    else:
        got = [s for _c, s in frames]
        if sorted(got) != sorted(s for t in work for s in t):
            fails.append(oracle("C11:not-exactly-once", "%s: stanzas on the wire %s, sent %s" % (ctx, got, work)))
        for ti, t in enumerate(work):
            if [s for s in got if s in t] != t:
                fails.append(oracle("C11:thread-order", "%s: thread %d's stanzas left in order %s" % (ctx, ti, [s for s in got if s in t])))
    # ---- the same run on the model
    sched = model_schedule(c, L)
    line = chk.driver.ask("conc run %s %s" % ("/".join("+".join(str(s) for s in t) for t in work), ",".join(str(i) for i in sched)))
    if perr is None:
        want = " ".join("h%d:%d p%d:%d" % (cn, s, cn, s) for cn, s in frames)
        m = dict(x.split("=", 1) for x in line.split(" ", 3) if "=" in x) if False else None
        mwire = line.split(" wire=")[1].split(" left=")[0]
        mfin = line.split(" ")[0]
        if mwire != want or mfin != "finished=true":
            fails.append(corr(label, "%s: impl wire %s   model %s" % (ctx, want, line)))
    return fails


def run_dispatcher(chk, case):
    """the real AsyncoreConnectionDispatcher over a socket pair: a sender thread calling sendData per frame and the asyncore loop
    thread's handle_write, scheduled at the lock operations, at every read / write of out_buffer and at the socket send (which may accept
    only part of the data); the peer reads the bytes"""
    import random
    import asyncore
    from gen import sendbufcfg
    import yowsup.layers.network.dispatcher.dispatcher_asyncore as DA
    fails = []
    r = random.Random(case["seed"])
    if getattr(DA, "threading", None) is not None:
        DA.threading = coop._ThreadingProxy()
    # every read / write of out_buffer is a scheduling point (the append `out_buffer = out_buffer + data` is a load and a store)
    disp, a, b = sendbufcfg.make_dispatcher(hook=lambda kind: coop.point())
    b.setblocking(False)
    frames = [bytes(bytearray((i * 37 + j) % 251 for j in range(n))) for i, n in enumerate(case["frames"])]
    real_send = asyncore.dispatcher.send

    def send(self, data):
        coop.point()
        n = real_send(self, data[:r.choice([1, 2, 5, 1 << 16, 1 << 16, 1 << 16])])      # the socket may accept only part of it
        coop.log(("sent", bytes(data[:n])))
        return n
    asyncore.dispatcher.send = send
    c = coop.Coop()

    def sender():
        for f in frames:
            disp.sendData(f)
            coop.log(("sendData", f))

    def loop():
        for _ in range(case["flushes"]):
            coop.point()
            if disp.writable():
                disp.handle_write()
    c.spawn(sender)
    c.spawn(loop)
    err = None
    try:
        c.run(coop.chooser(r))
        # what the loop thread would do next: flush the rest
        for _ in range(400):
            if len(disp.out_buffer):
                disp.handle_write()
    except coop.Deadlock as e:
        err = e
    finally:
        asyncore.dispatcher.send = real_send
    got = bytearray()
    while True:
        try:
            d = b.recv(65536)
        except Exception:
            break
        if not d:
            break
        got += d
    try:
        disp.del_channel()
    except Exception:
        pass
    a.close()
    b.close()
    ctx = "frames of %s bytes, %d loop iterations, schedule %s" % (case["frames"], case["flushes"], c.choices)
    chk.hit("dispatcher:frames:%d" % len(frames))
    if err is not None:
        fails.append(oracle("C11:dispatcher-deadlock", "%s: %s" % (ctx, err)))
        return fails
    want = b"".join(frames)
    if bytes(got) != want:
        kind = "duplicated" if len(got) > len(want) else "lost-or-altered"
        fails.append(oracle("C11:socket-bytes-%s" % kind, "%s: the peer received %d bytes, the frames handed to sendData are %d bytes; first difference at offset %d"
                            % (ctx, len(got), len(want), next((i for i, (x, y) in enumerate(zip(got, want)) if x != y), min(len(got), len(want))))))
    return fails


class SessionTransport(object):
    """counting cipher stand-in of ONE session: 0x02, session number, 4-byte counter, plaintext"""
    def __init__(self, stream, session):
        self._stream, self.session, self.counter = stream, session, 0

    def send(self, data):
        coop.log("enter")           # the sender works with THIS session's transport and stream from here on (the model's `enter`)
        coop.point()
        n = self.counter
        self.counter += 1
        coop.log("enc")
        self._stream.write_segment(b"\x02" + bytes([self.session]) + struct.pack(">I", n) + bytes(data))

    def recv(self):
        return bytes(self._stream.read_segment()[6:])


def _arm_session(noise, session):
    """what a completed login leaves behind: the protocol object in transport state with this session's cipher, the stream's callback bound to
    this attempt's stream and queue (as on_auth binds them), scheduling points at the stream's queue operations"""
    p = noise._wa_noiseprotocol
    p._machine.set_state("transport")
    p._last_triggered_state = "transport"
    stream, queue = noise._stream, noise._incoming_segments_queue
    p._transport = SessionTransport(stream, session)
    if not getattr(stream, "_verif_points", False):
        stream._verif_points = True
        orig_get = stream.get_write_segment

        def write_segment(data):
            coop.point()
            stream._writequeue.put(data)
            coop.log("put")
            if stream._events_callback is not None:
                stream._events_callback(stream.EVENT_WRITE)

        def get_write_segment():
            coop.point()
            d = orig_get()
            coop.log("get")
            return d
        stream.write_segment = write_segment
        stream.get_write_segment = get_write_segment
    stream.set_events_callback(lambda event: noise._handle_stream_event(event, stream, queue))


def run_reconnect(chk, case):
    """sender threads (an application, the keep-alive) and the network thread: while a sender may be stalled anywhere inside its send, the
    connection is lost and a new login completes.  Whatever the schedule, the second connection carries whole frames of the SECOND session only,
    in counter order (a frame encrypted for the lost session is of no use to the peer and breaks its counter)."""
    import random
    from yowsup.layers import YowLayerEvent
    from yowsup.layers.network import YowNetworkLayer
    from yowsup.layers.coder.encoder import WriteEncoder
    from yowsup.layers.coder.tokendictionary import TokenDictionary
    r = random.Random(case["seed"])
    del coop.LOCKS[:]
    stack, top, bottom, L = concstack.build()
    noise = L["noise"]
    _arm_session(noise, 1)
    c = coop.Coop()
    mark = []
    refused = {}
    for ti, stanzas in enumerate(case["work"]):
        def body(stanzas=stanzas, ti=ti):
            for sid in stanzas:
                try:
                    top.send(node_for(sid))
                except Exception:
                    refused[ti] = refused.get(ti, 0) + 1      # a send that hits the moment without a session is refused: that is C12's subject
        c.spawn(body)

    orig_new = noise._new_noiseprotocol

    def new_protocol():
        coop.log("swap")            # the moment the replacement takes effect (the model's `swap`)
        mark.append(len(bottom.writes))
        return orig_new()
    noise._new_noiseprotocol = new_protocol

    hs = case.get("handshake", 0)

    def network():
        for _ in range(case["delay"]):
            coop.point()
        bottom.emitEvent(YowLayerEvent(YowNetworkLayer.EVENT_STATE_DISCONNECTED, reason="lost"))
        if not hs:
            _arm_session(noise, 2)
            return
        # the new login takes a while: the protocol object of the new attempt is in its handshake state while senders keep calling, and it
        # is the handshake worker's thread that brings the session up and tells the layer
        from consonance.protocol import WANoiseProtocol
        p = noise._wa_noiseprotocol
        p._machine.set_state("handshake")
        p._last_triggered_state = "handshake"

        def worker():
            for _ in range(hs):
                coop.point()
            _arm_session(noise, 2)
            noise._on_protocol_state_changed(WANoiseProtocol.STATE_TRANSPORT, noise._wa_noiseprotocol)
        c.spawn(worker)
    c.spawn(network)
    err = None
    try:
        c.run(coop.chooser(r))
    except coop.Deadlock as e:
        err = e
    chk.hit("reconnect:senders=%d" % len(case["work"]))
    ctx = "senders %s, the connection is lost after %d scheduling rounds of the network thread, schedule %s" % (case["work"], case["delay"], c.choices[:60])
    if err is not None:
        return [oracle("C11:deadlock", "%s: %s" % (ctx, err))]
    enc = WriteEncoder(TokenDictionary())
    expected = dict((bytes(bytearray(enc.protocolTreeNodeToBytes(node_for(s_)))), s_) for t in case["work"] for s_ in t)
    fails = []
    cut = mark[0] if mark else len(bottom.writes)
    # ---- the run on Model/StaleWrite.lean: the completed operations in their order, as a schedule of the model's threads
    nsend = len(case["work"])
    atomic = "atomic=true" in chk.driver.ask("conc stale 1 0")
    slock = getattr(noise, "_stream_lock", None)
    sched, pending_write, nwrites = [], {}, {}
    for idx, tag in c.trace:
        if idx < nsend:
            if tag == "enter":
                if pending_write.get(idx):
                    sched.append(idx)                 # the write step of a segment that was found stale: nothing was written
                    pending_write[idx] = False
                sched.append(idx)                     # enter
            elif tag == "get" and not atomic:
                sched.append(idx)                     # check
                pending_write[idx], nwrites[idx] = True, 0
            elif isinstance(tag, tuple) and tag[0] == "acq" and tag[1] is slock and atomic:
                sched += [idx, idx]                   # lock, check
                pending_write[idx], nwrites[idx] = True, 0
            elif tag == "write" and pending_write.get(idx):
                nwrites[idx] += 1
                if nwrites[idx] == 2:
                    sched.append(idx)                 # write (header and payload reached the network)
                    pending_write[idx] = False
            elif isinstance(tag, tuple) and tag[0] == "rel" and tag[1] is slock and atomic:
                if pending_write.get(idx):
                    sched.append(idx)
                    pending_write[idx] = False
                sched.append(idx)                     # unlock
        else:
            if (isinstance(tag, tuple) and tag[1] is slock and atomic) or tag == "swap":
                sched.append(idx)
    for idx, p_ in sorted(pending_write.items()):
        if p_:
            sched.append(idx)
    real_wire = []
    for j in range(1, len(bottom.writes), 2):
        pl = bottom.writes[j]
        if pl[:1] == b"\x02":
            real_wire.append("%d:%d" % (0 if j < cut else 1, pl[1] - 1))
    model = chk.driver.ask("conc stale %s %s" % ("/".join(str(len(t)) for t in case["work"]) + "/-", ",".join(map(str, sched)) or "-"))
    mwire = model.split(" wire=")[1].split(" left=")[0].split()
    # (a refused send never entered the noise layer's write path: its steps stay unexecuted in the model's thread)
    want_left = [str((5 if atomic else 3) * refused.get(ti, 0)) for ti in range(nsend)] + ["0"]
    if mwire != real_wire or model.split(" left=")[1].split(",") != want_left:
        fails.append(corr("reconnect", "senders %s seed %d: frames (connection:session) on the real wire %s; model %s (model schedule %s)" % (case["work"], case["seed"], real_wire, model, sched[:80])))
    ofails = []
    for conn, writes in ((1, bottom.writes[:cut]), (2, bottom.writes[cut:])):
        i = n = 0
        while i < len(writes):
            h = writes[i]
            pl = writes[i + 1] if i + 1 < len(writes) else None
            what = None
            if len(h) != 3:
                what = "write #%d is not a 3-byte length header (%d bytes)" % (i, len(h))
            elif pl is None:
                if conn == 2:
                    what = "a length header without its payload at the end"
                else:
                    break       # the connection was lost between a header and its payload: the peer never sees it
            elif len(pl) != struct.unpack(">I", b"\x00" + h)[0]:
                what = "the header announces %d bytes, the next write has %d" % (struct.unpack(">I", b"\x00" + h)[0], len(pl))
            elif pl[:1] != b"\x02" or pl[1] != conn:
                what = "frame #%d was encrypted for session %s: the peer of this connection cannot decrypt it (and its counter is out of step from here on)" % (n, pl[1] if pl[:1] == b"\x02" else "?")
            elif struct.unpack(">I", pl[2:6])[0] != n:
                what = "frame #%d carries cipher counter %d" % (n, struct.unpack(">I", pl[2:6])[0])
            elif bytes(pl[6:]) not in expected:
                what = "frame #%d does not decrypt to a stanza that was sent" % n
            if what:
                ofails.append(oracle("C11:stale-session-frame" if "session" in what else "C11:frames-not-whole-or-out-of-order", "%s: connection %d: %s" % (ctx, conn, what)))
                break
            n += 1
            i += 2
        if ofails:
            break
    return ofails + fails


def run_backlog(chk, case):
    """the real network layer and the real asyncore dispatcher (its socket operations stubbed): frames pile up in the dispatcher because the peer
    does not read, the connection is lost, the stack connects again and sends: the new connection carries what was sent on it and nothing else"""
    import asyncore
    import yowsup.layers.network.layer as nl
    from yowsup.layers import YowLayerEvent
    from yowsup.layers.network import YowNetworkLayer
    from yowsup.layers.network.dispatcher.dispatcher_asyncore import AsyncoreConnectionDispatcher as Real
    from yowsup.stacks import YowStack
    from lib.probes import Probe
    wire = {}
    state = {"conn": 0, "accept": 0}

    class Stub(Real):
        def connect(self, host):
            state["conn"] += 1
            self._verif_conn = state["conn"]
            wire[self._verif_conn] = bytearray()
            self.connectionCallbacks.onConnecting()

        def close(self):
            self.connected = False

    real_send = asyncore.dispatcher.send

    def send(self, data):
        n = min(len(data), state["accept"])
        wire[self._verif_conn] += bytes(data[:n])
        return n
    saved = nl.AsyncoreConnectionDispatcher
    nl.AsyncoreConnectionDispatcher = Stub
    asyncore.dispatcher.send = send
    fails = []
    try:
        top = Probe("top")
        stack = YowStack((YowNetworkLayer, top), reversed=False)
        stack.setProp(YowNetworkLayer.PROP_ENDPOINT, ("127.0.0.1", 1))
        net = stack.getLayer(0)
        first = [bytes([0xA0 + i]) * n for i, n in enumerate(case["first"])]
        second = [bytes([0xB0 + i]) * n for i, n in enumerate(case["second"])]
        stack.broadcastEvent(YowLayerEvent(YowNetworkLayer.EVENT_STATE_CONNECT))
        d1 = net._dispatcher
        d1.handle_connect()
        state["accept"] = case["accept"]          # how much the kernel takes per write on the first connection (0: the peer does not read)
        for f in first:
            net.send(f)
        pending = len(d1.out_buffer)
        d1.handle_close()                          # the connection is lost with `pending` bytes never written
        stack.broadcastEvent(YowLayerEvent(YowNetworkLayer.EVENT_STATE_CONNECT))
        d2 = net._dispatcher
        d2.handle_connect()
        state["accept"] = 1 << 20
        for f in second:
            net.send(f)
        for _ in range(50):
            if len(getattr(d2, "out_buffer", b"")):
                d2.handle_write()
        chk.hit("backlog:pending=%s" % ("0" if not pending else ">0"))
        if state["conn"] != 2:
            fails.append(oracle("C11:reconnect-opens-no-connection", "two CONNECT requests with a lost connection in between opened %d connections" % state["conn"]))
        elif bytes(wire[2]) != b"".join(second):
            fails.append(oracle("C11:bytes-of-a-lost-connection-on-the-next", "frames of %s bytes handed to the first connection (the kernel took %d bytes per write; %d bytes were still "
                                "waiting when it was lost), then a reconnect and frames of %s bytes: the second connection carried %d bytes, %d were sent on it — it starts with %s"
                                % (case["first"], case["accept"], pending, case["second"], len(wire[2]), sum(case["second"]), bytes(wire[2][:8]).hex())))
    finally:
        nl.AsyncoreConnectionDispatcher = saved
        asyncore.dispatcher.send = real_send
    return fails


def run_sockwrite(chk, case):
    """the library's socket dispatcher (PROP_DISPATCHER = DISPATCHER_SOCKET) on a real loopback connection; the peer reads slowly so that the
    kernel's send buffer is full most of the time.  Each sender thread writes its frames under one lock (what the layers above guarantee:
    C11's other streams), so the peer must read exactly the frames, whole, in the order the lock was taken."""
    import socket
    import threading
    import time
    from yowsup.layers.network.dispatcher.dispatcher import ConnectionCallbacks
    from yowsup.layers.network.dispatcher.dispatcher_socket import SocketConnectionDispatcher
    try:
        srv = socket.socket()
        srv.bind(("127.0.0.1", 0))
        srv.listen(1)
    except OSError as e:
        chk.notes.append("stream 'sockwrite' skipped: no loopback TCP in this sandbox (%s)" % e)
        return []
    srv.settimeout(5)
    got = bytearray()
    done = threading.Event()
    total = sum(case["sizes"])

    def peer():
        try:
            c, _a = srv.accept()
            c.setsockopt(socket.SOL_SOCKET, socket.SO_RCVBUF, 65536)
            c.settimeout(4)
            while len(got) < total:
                try:
                    b = c.recv(65536)
                except OSError:
                    break
                if not b:
                    break
                got.extend(b)
                time.sleep(0.0005)        # a slow reader
            done.set()
            c.close()
        except OSError:
            done.set()
    threading.Thread(target=peer, daemon=True).start()

    class CB(ConnectionCallbacks):
        def __init__(self):
            self.up = threading.Event()

        def onConnecting(self):
            pass

        def onConnected(self):
            self.up.set()

        def onDisconnected(self):
            pass

        def onConnectionError(self, e):
            self.up.set()

        def onRecvData(self, d):
            pass
    cb = CB()
    disp = SocketConnectionDispatcher(cb)
    threading.Thread(target=lambda: disp.connect(("127.0.0.1", srv.getsockname()[1])), daemon=True).start()
    if not cb.up.wait(5):
        srv.close()
        return [oracle("C11:socket-dispatcher-does-not-connect", "the socket dispatcher did not connect to a listening loopback peer within 5 s")]
    lock = threading.Lock()
    order = []
    frames = [bytes([1 + i % 250]) * n for i, n in enumerate(case["sizes"])]
    per = [frames[t::case["threads"]] for t in range(case["threads"])]
    errs = []

    def sender(mine):
        for f in mine:
            with lock:
                order.append(f)
                try:
                    disp.sendData(f)
                except Exception as e:
                    errs.append("%s: %s" % (type(e).__name__, e))
    ths = [threading.Thread(target=sender, args=(m,), daemon=True) for m in per]
    for t in ths:
        t.start()
    for t in ths:
        t.join(20)
    done.wait(8)
    try:
        disp.disconnect()
    except Exception:
        pass
    srv.close()
    chk.hit("sockwrite:threads=%d" % case["threads"], "sockwrite:largest>=%dMiB" % (max(case["sizes"]) >> 20))
    want = b"".join(order)
    if errs:
        return [oracle("C11:socket-write-raises", "socket dispatcher, frames of %s bytes from %d thread(s): sendData raised %s" % (case["sizes"], case["threads"], errs[0]))]
    if bytes(got) != want:
        n = next((i for i in range(min(len(got), len(want))) if got[i] != want[i]), min(len(got), len(want)))
        return [oracle("C11:socket-write-loses-bytes", "socket dispatcher over loopback TCP to a slow reader, frames of %s bytes from %d thread(s) (each write under the senders' lock): the "
                       "peer read %d of %d bytes; the first difference is at byte %d — a frame reached the wire only in part" % (case["sizes"], case["threads"], len(got), len(want), n))]
    return []


def run_case(chk, stream, case):
    import random
    if stream == "sockwrite":
        return run_sockwrite(chk, case)
    if stream == "backlog":
        return run_backlog(chk, case)
    if stream == "reconnect":
        return run_reconnect(chk, case)
    if stream == "dispatcher":
        return run_dispatcher(chk, case)
    if stream == "preempt":
        r = random.Random(case["seed"])
        c, writes, L, err = execute(case["work"], coop.chooser(r), preempt=(case["prob"], random.Random(case["seed"] ^ 0x5bd1e995)), entry=case.get("entry", "top"),
                                    inbound=case.get("inbound", 0), other_login=case.get("other_login", 0))
        chk.hit("preempt:inbound=%d" % min(case.get("inbound", 0), 1))
        chk.hit("preempt:threads=%d" % len(case["work"]), "preempt:p=%s" % case["prob"])
        return check_run(chk, case, c, writes, L, err, "preempt")
    if stream == "failing":
        # senders of which some have a send REFUSED below the layers' locks while the others are waiting for those locks or are at work: the
        # refusal is reported to its sender, and the stanzas of the others still reach the wire whole, in counter order, exactly once (oracle only:
        # the Lean model of the send path has no failing sends; what a failure does to the locks one at a time is C12's model)
        r = random.Random(case["seed"])
        c, writes, L, err = execute(case["work"], coop.chooser(r), entry=case.get("entry", "top"))
        chk.hit("failing:threads=%d" % len(case["work"]))
        good = dict(case, work=[[s_ for s_ in t if s_ > 0] for t in case["work"]])
        fs = check_run(chk, good, c, writes, L, err, "failing")
        return [f for f in fs if f.kind == "oracle"]
    if stream == "random":
        r = random.Random(case["seed"])
        c, writes, L, err = execute(case["work"], coop.chooser(r))
        chk.hit("threads:%d" % len(case["work"]), "switches:%d" % min(9, sum(1 for a, b in zip(c.choices, c.choices[1:]) if a != b) // 3))
        return check_run(chk, case, c, writes, L, err, "random")
    # exhaustive: depth-first over all choice sequences
    fails = []
    stack = [[]]
    runs = 0
    seen_wires = set()
    while stack and len(fails) < 3:
        prefix = stack.pop()
        pos = [0]
        branch = []

        def choose(runnable):
            i = pos[0]
            pos[0] += 1
            if i < len(prefix):
                for t in runnable:
                    if t.idx == prefix[i]:
                        return t
                return runnable[0]
            branch.append((i, [t.idx for t in runnable]))
            return runnable[0]
        c, writes, L, err = execute(case["work"], choose)
        runs += 1
        fails += check_run(chk, case, c, writes, L, err, "exhaustive")
        seen_wires.add(tuple(writes))
        for i, opts in branch:
            for alt in opts[1:]:
                stack.append(c.choices[:i] + [alt])
        if runs > 8000:
            break
    chk.hit("exhaustive-runs:%d" % runs)
    chk.notes.append("exhaustive %s: %d schedules, %d distinct byte streams" % (case["work"], runs, len(seen_wires)))
    return fails
