"""C18  Stack assembly and event propagation — Model/Stack.lean vs the real YowStack / YowStackBuilder /
YowParallelLayer / YowLayer, plus the property oracle (spec recomputed independently in Python)."""
import itertools

import boot  # noqa: F401
from core import corr, oracle
from yowsup.layers import EventCallback, YowLayer, YowLayerEvent, YowParallelLayer
from yowsup.stacks import YowStack, YowStackBuilder
import yowsup.stacks.yowstack as ys_mod

PID = "C18"
GEN = ["defaultlayers"]
LEAN_MODULES = ["YowsupVerif.Props.C18"]
RULE = ("stream 'shape': random stack shapes (depth 1..6, parallel groups of 1..4, given bottom-first or top-first with the reversed flag, "
        "slots given as classes, instances, tuples or YowParallelLayer, or assembled through YowStackBuilder push/pop), random per-layer "
        "behaviour (pass/drop/duplicate/increment on send and on receive, at most one consumed event, interface or none), then ops: send, "
        "receive, emit/broadcast from the stack or from a layer at every position (normal and detached, then the real loop() is run), "
        "interface lookup for every class; every op's call trace is compared with the Lean model and with the spec recomputed in Python. "
        "stream 'exhaustive' (thorough): all shapes up to depth 4 with groups <= 3 x every emitter position x every consumer position. "
        "stream 'helpers': getCoreLayers/getProtocolLayers/getDefaultLayers/getDefaultStack for all 16/32 flag combinations. "
        "distinct = distinct (shape, behaviours, op).")
RULE += (" The stack's loop runs three idle passes before the harness leaves it.")
RULE += (" stream 'reuse': a layer instance (plain or parallel group) of a first stack handed to a second stack at every position: nothing of the first stack is reachable from the second.")
RULE += (" Builder scripts (push / pop / pushDefaultLayers in every order, 9 fixed + 40 generated) compared bottom to top with a plain list under the same appends.")
RULE += (" In every third generated shape the handlers answer with other true / false values than True / False (1, 'handled', a list, a float / None, 0, '', []): consuming is the answer's truth.")
ASSUMPTIONS = ["layers are seen by the framework through send/receive/onEvent/toLower/toUpper/emitEvent/broadcastEvent only",
               "one thread drives the stack in this check (C11/C12 cover concurrency)"]

LOG = []


class _Stop(Exception):
    pass


class _FakeTime(object):
    def __getattr__(self, n):
        import time
        return getattr(time, n)

    idle = 0

    @staticmethod
    def sleep(_s):
        # the loop is left after three passes in a row that found nothing queued (an application's loop goes on idling for ever: whatever an
        # idle pass does shows in the log)
        q = YowStack._YowStack__detachedQueue
        if q.empty():
            _FakeTime.idle += 1
            if _FakeTime.idle >= 3:
                _FakeTime.idle = 0
                raise _Stop()
        else:
            _FakeTime.idle = 0


def fan(kind):
    return {"pass": lambda m: [m], "drop": lambda m: [], "dup": lambda m: [m, m + 1000], "inc": lambda m: [m + 1]}[kind]


class Iface(object):
    def __init__(self, v):
        self.v = v


class RecLayer(YowLayer):
    LID, CLS, TX, RX, CONS, IFACE = 0, 0, "pass", "pass", None, None

    def __init__(self):
        super(RecLayer, self).__init__()
        self.interface = None

    def send(self, m):
        LOG.append("s%d:%d" % (self.LID, m))
        for o in fan(self.TX)(m):
            self.toLower(o)

    def receive(self, m):
        LOG.append("r%d:%d" % (self.LID, m))
        for o in fan(self.RX)(m):
            self.toUpper(o)

    def onEvent(self, ev):
        n = int(ev.getName())
        LOG.append("e%d:%d" % (self.LID, n))
        return answer(self, self.CONS == n)


# what a handler answers: "consumed" is any true value, "go on" any false one (the stack tests the answer's truth: `if self.onEvent(ev): return`)
TRUTHY = [True, 1, "handled", [0], 2.5]
FALSY = [False, None, 0, "", []]


def answer(layer, consumed):
    k = getattr(layer, "ANS", 0) % len(TRUTHY)
    return TRUTHY[k] if consumed else FALSY[k]


class CbLayer(RecLayer):
    """the same recording layer, but its event handling goes through the framework's own registration: handler methods marked with
    @EventCallback (added per class in _mkclasses); YowLayer.onEvent looks the handler up and its result decides whether the event goes on"""
    def onEvent(self, ev):
        LOG.append("e%d:%d" % (self.LID, int(ev.getName())))
        return YowLayer.onEvent(self, ev)


def _handler(n):
    @EventCallback(str(n))
    def h(self, ev):
        return answer(self, self.CONS == n)
    h.__name__ = "on_event_%d" % n
    return h


def handled(case, c):
    """events the class with model id c has a handler for: its own and its ancestors' (callbacks style only)"""
    out = set()
    seen = set()
    while c is not None and c not in seen:
        seen.add(c)
        out |= set((case.get("handles") or {}).get(str(c), []))
        c = (case.get("derive") or {}).get(str(c))
    return out


def effective(case):
    """the case as the model and the spec functions see it: with callbacks-style layers a layer consumes event n only if its class (or an
    ancestor) declares a handler for n"""
    if case.get("style") != "callbacks":
        return case
    layers = {}
    for k, sp in case["layers"].items():
        sp = dict(sp)
        if sp["cons"] is not None and sp["cons"] not in handled(case, sp["cls"]):
            sp["cons"] = None
        layers[k] = sp
    return dict(case, layers=layers)


def setup(chk):
    ys_mod.time = _FakeTime()


# ------------------------------------------------------------------------------- cases

def _rand_case(r, maxdepth=6, maxgroup=4):
    depth = r.randint(1, maxdepth)
    lid = itertools.count(1)
    slots, layers = [], {}
    ncls = r.choice([2, 3, 5, 8])
    for _ in range(depth):
        if r.random() < 0.4:
            ids = [next(lid) for _ in range(r.randint(1, maxgroup))]
            slots.append(ids)
        else:
            slots.append(next(lid))
    nl = next(lid) - 1
    for l in range(1, nl + 1):
        layers[str(l)] = {"cls": r.randrange(ncls), "tx": r.choice(["pass", "pass", "pass", "drop", "dup", "inc"]),
                          "rx": r.choice(["pass", "pass", "pass", "drop", "dup", "inc"]),
                          "cons": r.choice([None, None, None, 1, 2, 3]), "iface": r.choice([None, 100 + l, 100 + l])}
    form = [r.choice(["class", "inst"]) if not isinstance(s, list) else r.choice(["tuple", "parallel"]) for s in slots]
    derive = {}
    if r.random() < 0.5:
        for c in range(1, ncls):
            if r.random() < 0.6:
                derive[str(c)] = r.randrange(c)
    case = {"slots": slots, "layers": layers, "form": form, "reversed": r.choice([0, 1]),
            "builder": r.choice([0, 0, 1]), "pops": r.choice([0, 1, 2]), "derive": derive}
    if r.random() < 0.4:
        # event handling through @EventCallback handlers: each class declares handlers for some of the events, subclasses add their own
        case["style"] = "callbacks"
        case["handles"] = dict((str(c), sorted(r.sample([1, 2, 3, 9], r.randint(1, 3)))) for c in range(ncls))
    # some of the pass-through layers do not override send / receive at all: they INHERIT the base class's methods (a layer that only handles
    # events, or only one direction).  Drawn from a generator of its own so that the cases' random stream stays what it was.
    import random as _random
    r2 = _random.Random("plain:" + repr(sorted(layers.items())) + repr(slots))
    if r2.random() < 0.5:
        case["plain"] = sorted(int(k) for k, v in layers.items() if v["tx"] == "pass" and v["rx"] == "pass" and r2.random() < 0.6)
    return case


def cases(chk):
    for where in ("top", "bottom", "middle", "group-top", "group-bottom", "mid-to-top", "mid-to-bottom", "group-mid-to-top", "group-mid-to-bottom", "top-to-bottom", "bottom-to-top"):
        yield "reuse", {"where": where}
    r = chk.rng
    yield "helpers", {}
    yield "shape", {"slots": [1, [2, 3], 4], "layers": {str(i): {"cls": i, "tx": "pass", "rx": "pass", "cons": None, "iface": 100 + i} for i in range(1, 5)},
                    "form": ["class", "parallel", "inst"], "reversed": 0, "builder": 0, "pops": 0}
    yield "shape", {"slots": [1, [2, 3], 4], "layers": {str(i): {"cls": 1, "tx": "pass", "rx": "pass", "cons": 2 if i == 2 else None, "iface": None if i == 2 else 100 + i} for i in range(1, 5)},
                    "form": ["class", "tuple", "class"], "reversed": 1, "builder": 0, "pops": 0}
    # members of a group (explicit, implicit, of one) and plain layers that inherit the base class's send / receive
    for slots_, form_ in (([1, [2, 3], 4], ["class", "parallel", "inst"]), ([1, [2, 3], 4], ["class", "tuple", "class"]), ([1, [2], 3], ["class", "parallel", "class"]),
                          ([1, 2, 3], ["class", "inst", "class"])):
        for rev in (0, 1):
            nl_ = max(x if not isinstance(x, list) else max(x) for x in slots_)
            yield "shape", {"slots": slots_, "layers": {str(i): {"cls": i, "tx": "pass", "rx": "pass", "cons": None, "iface": None} for i in range(1, nl_ + 1)},
                            "form": form_, "reversed": rev, "builder": 0, "pops": 0, "plain": [2]}
    # handlers registered with @EventCallback, a subclass adding handlers its base lacks, the base instantiated first / last
    for rev in (0, 1):
        yield "shape", {"slots": [1, 2, [3, 4], 5], "layers": {"1": {"cls": 0, "tx": "pass", "rx": "pass", "cons": None, "iface": 101},
                                                                "2": {"cls": 1, "tx": "pass", "rx": "pass", "cons": 2, "iface": 102},
                                                                "3": {"cls": 0, "tx": "pass", "rx": "pass", "cons": 9, "iface": 103},
                                                                "4": {"cls": 2, "tx": "pass", "rx": "pass", "cons": 3, "iface": 104},
                                                                "5": {"cls": 1, "tx": "pass", "rx": "pass", "cons": 1, "iface": 105}},
                        "form": ["class", "class", "parallel", "inst"], "reversed": rev, "builder": 0, "pops": 0,
                        "derive": {"1": 0, "2": 1}, "style": "callbacks", "handles": {"0": [1, 9], "1": [2], "2": [3]}}
    for i in range(chk.scale(1200, 12000)):
        if not chk.time_left():
            break
        c = _rand_case(r)
        if i % 3 == 1:
            c["answers"] = 1 + i % 5        # the handlers of this case answer with other true / false values than True / False
        yield "shape", c
    if not chk.quick():
        kinds = [0, 1, 2, 3]          # 0 = single, k = group of k
        for depth in range(1, 5):
            for combo in itertools.product(kinds, repeat=depth):
                lid = itertools.count(1)
                slots = [next(lid) if k == 0 else [next(lid) for _ in range(k)] for k in combo]
                nl = next(lid) - 1
                for consumer in [None] + list(range(1, nl + 1)):
                    layers = {str(l): {"cls": l % 3, "tx": "pass", "rx": "pass", "cons": 1 if l == consumer else None, "iface": 100 + l}
                              for l in range(1, nl + 1)}
                    yield "exhaustive", {"slots": slots, "layers": layers,
                                         "form": ["class" if k == 0 else "parallel" for k in combo], "reversed": 0, "builder": 0, "pops": 0}


def nontrivial(stream, case):
    return (stream, repr(case))


# ------------------------------------------------------------------------------- build real stack

def _mkclasses(case):
    """one Python class per MODEL class id, shared by every layer of that class (the stack finds interfaces by exact class); case["derive"]
    makes some of them subclasses of others — a subclass is a different class, a lookup for the base must not stop at it"""
    derive = case.get("derive") or {}
    ids = set(sp["cls"] for sp in case["layers"].values())
    for c in list(ids):                 # ... and their ancestors, whether or not a layer of the stack is of that class
        while derive.get(str(c)) is not None and derive[str(c)] not in ids:
            c = derive[str(c)]
            ids.add(c)
    ids = sorted(ids)
    by_cls = {}
    cbs = case.get("style") == "callbacks"
    for c in ids:
        parent = derive.get(str(c))
        base = by_cls[parent] if parent is not None and parent in by_cls else (CbLayer if cbs else RecLayer)
        body = {"CLS": c}
        if cbs:
            for n in (case.get("handles") or {}).get(str(c), []):
                body["on_event_%d" % n] = _handler(n)
        by_cls[c] = type("K%d" % c, (base,), body)
    return by_cls


def build_real(case):
    by_cls = _mkclasses(case)
    classes = dict((int(k), by_cls[spec["cls"]]) for k, spec in case["layers"].items())
    items = []
    for s, f in zip(case["slots"], case["form"]):
        if isinstance(s, list):
            cl = tuple(classes[l] for l in s)
            items.append(cl if f == "tuple" else YowParallelLayer(cl))
        else:
            items.append(classes[s] if f == "class" else classes[s]())
    order = items[::-1] if case["reversed"] else items      # what the caller passes
    if case["builder"] and not case["reversed"]:
        b = YowStackBuilder()
        extra = case["pops"]
        for it in items:
            b.push(it)
        for _ in range(extra):
            b.push(classes[min(classes)])
        for _ in range(extra):
            b.pop()
        stack = b.build()
    else:
        stack = YowStack(tuple(order), reversed=bool(case["reversed"]))
    # the layers' behaviours are attached by position (several layers may share one class)
    for k, spec in case["layers"].items():
        layer, _i = real_layer(stack, case, int(k))
        layer.LID, layer.TX, layer.RX, layer.CONS = int(k), spec["tx"], spec["rx"], spec["cons"]
        layer.ANS = (case["answers"] + int(k)) if case.get("answers") else 0
        layer.interface = Iface(spec["iface"]) if spec["iface"] is not None else None
        if int(k) in (case.get("plain") or []) and spec["tx"] == "pass" and spec["rx"] == "pass":
            # the base class's own send / receive, as a layer class that overrides neither inherits them (the class object is shared by the
            # layers of one model class, so the inherited methods are bound per instance; they log nothing)
            import types
            layer.send = types.MethodType(YowLayer.send, layer)
            layer.receive = types.MethodType(YowLayer.receive, layer)
    return stack, by_cls


def real_layer(stack, case, lid):
    for i, s in enumerate(case["slots"]):
        inst = stack.getLayer(i)
        if isinstance(s, list):
            if lid in s:
                return inst.sublayers[s.index(lid)], i
        elif s == lid:
            return inst, i
    raise KeyError(lid)


def drain():
    q = YowStack._YowStack__detachedQueue
    n = 0
    while not q.empty():
        q.get(False)
        n += 1
    return n


def run_loop(stack):
    try:
        stack.loop()
    except _Stop:
        pass


# ------------------------------------------------------------------------------- python spec (oracle)

def members(s):
    return s if isinstance(s, list) else [s]


def spec_down(case, slots, m):
    if not slots:
        return []
    out = []
    for l in members(slots[0]):
        out.append("s%d:%d" % (l, m))
        for o in fan(case["layers"][str(l)]["tx"])(m):
            out += spec_down(case, slots[1:], o)
    return out


def spec_up(case, slots, m):
    if not slots:
        return []
    out = []
    for l in members(slots[0]):
        out.append("r%d:%d" % (l, m))
        for o in fan(case["layers"][str(l)]["rx"])(m):
            out += spec_up(case, slots[1:], o)
    return out


def spec_event(case, slots, ev):
    out = []
    for s in slots:
        consumed = False
        for l in members(s):
            out.append("e%d:%d" % (l, ev))
            if case["layers"][str(l)]["cons"] == ev:
                consumed = True
                break
        if consumed:
            break
    return out


# ------------------------------------------------------------------------------- running

def run_reuse(chk, case):
    """a layer INSTANCE (a plain layer or a parallel group object) that was part of one stack is handed to a second stack: the second stack is
    the given layers in the given order and nothing else — nothing of the first stack is reachable from it"""
    from yowsup.layers import YowLayerEvent
    del LOG[:]

    def mk(lid):
        l = RecLayer()
        l.LID = lid
        return l
    a, b, c = mk(1), mk(2), mk(3)
    g = YowParallelLayer((RecLayer, RecLayer))
    g.sublayers[0].LID, g.sublayers[1].LID = 4, 5
    # (where the instance sat in the first stack: "mid-" = between two layers, otherwise at the same end as in the second stack)
    first = {"top": (a, b, c), "bottom": (c, b, a), "middle": (a, c, b), "group-top": (a, b, g), "group-bottom": (g, b, a),
             "mid-to-top": (a, c, b), "mid-to-bottom": (a, c, b), "group-mid-to-top": (a, g, b), "group-mid-to-bottom": (a, g, b),
             "top-to-bottom": (a, b, c), "bottom-to-top": (c, b, a)}[case["where"]]
    YowStack(first, reversed=False)
    x, y = mk(7), mk(8)
    reused = g if case["where"].startswith("group") else c
    second = {"top": (x, y, reused), "bottom": (reused, x, y), "middle": (x, reused, y), "group-top": (x, y, reused), "group-bottom": (reused, x, y),
              "mid-to-top": (x, y, reused), "mid-to-bottom": (reused, x, y), "group-mid-to-top": (x, y, reused), "group-mid-to-bottom": (reused, x, y),
              "top-to-bottom": (reused, x, y), "bottom-to-top": (x, y, reused)}[case["where"]]
    st2 = YowStack(second, reversed=False)
    own = set([7, 8]) | (set([4, 5]) if reused is g else set([3]))
    out = []
    chk.hit("reuse:" + case["where"])
    for what in ("send", "receive", "emit", "broadcast"):
        del LOG[:]
        try:
            if what == "send":
                st2.send(11)
            elif what == "receive":
                st2.receive(12)
            elif what == "emit":
                st2.emitEvent(YowLayerEvent("5"))
            else:
                st2.broadcastEvent(YowLayerEvent("6"))
        except Exception as e:
            out.append(oracle("C18:reused-instance:raises", "layer instance reused at %s of a second stack: %s raises %s: %s" % (case["where"], what, type(e).__name__, e)))
            break
        seen = [int(t[1:].split(":")[0]) for t in LOG]
        foreign = [l for l in seen if l not in own]
        missing = sorted(own - set(seen))
        if foreign or missing:
            out.append(oracle("C18:reused-instance:%s" % ("reaches-the-first-stack" if foreign else "misses-layers"),
                              "a layer instance of a first stack (layers 1-5) reused at %s of a second stack (layers %s): %s in the second stack was seen by %s%s"
                              % (case["where"], sorted(own), what, seen, " — layers %s belong to the FIRST stack" % sorted(set(foreign)) if foreign else " — layers %s of the stack saw nothing" % missing)))
            break
    return out


def run_case(chk, stream, case):
    if stream == "helpers":
        return run_helpers(chk)
    if stream == "reuse":
        return run_reuse(chk, case)
    fails = []
    d = chk.driver
    d.ask("stack reset")
    real_case = case
    case = effective(case)          # (build_real gets the case as given; the model and the spec get the consumption that the handlers declared allow)
    for k, sp in case["layers"].items():
        d.ask("stack layer %s %d %s %s %s %s" % (k, sp["cls"], sp["tx"], sp["rx"],
                                                "-" if sp["cons"] is None else sp["cons"], "-" if sp["iface"] is None else sp["iface"]))
    toks = ["P" + ",".join(map(str, s)) if isinstance(s, list) else "S%d" % s for s in case["slots"]]
    given = toks[::-1] if case["reversed"] else toks
    d.ask("stack build %d %s" % (case["reversed"], " ".join(given)))
    drain()
    try:
        stack, classes = build_real(real_case)
    except Exception as e:
        return [oracle("C18:assembly-raises:" + type(e).__name__, "shape %s (form %s, reversed=%s, builder=%s): %s"
                       % (case["slots"], case["form"], case["reversed"], case["builder"], e))]
    slots = case["slots"]
    n = len(slots)
    chk.hit("depth=%d" % n, "groups=%d" % sum(1 for s in slots if isinstance(s, list)),
            "reversed=%d" % case["reversed"], "builder=%d" % (1 if case["builder"] and not case["reversed"] else 0))
    for f in set(case["form"]):
        chk.hit("form:" + f)
    chk.hit("events:" + case.get("style", "override"))

    plain = set(case.get("plain") or [])

    def compare(op, impl, model, spec=None, sig=None):
        if plain and op.split()[0] in ("send", "recv"):
            # a layer that inherits the base methods passes the data on without recording it
            def drop(sx):
                return ",".join(x for x in sx.split(",") if not (x[:1] in "sr" and x[1:].split(":")[0].isdigit() and int(x[1:].split(":")[0]) in plain))
            model, spec = drop(model), (drop(spec) if spec is not None else None)
        if impl != model:
            fails.append(corr("shape:" + op.split()[0], "%s on %s: impl=%s model=%s" % (op, slots, impl[:200], model[:200])))
        if spec is not None and impl != spec:
            fails.append(oracle(sig, "%s on shape %s (bottom first; behaviours %s): observed %s, expected %s"
                                % (op, slots, {k: (v["tx"], v["rx"], v["cons"]) for k, v in case["layers"].items()}, impl[:300], spec[:300])))

    # data (0: a payload that is false in a truth test is a payload like any other)
    for m in (7, 0):
        del LOG[:]
        stack.send(m)
        compare("send %d" % m, ",".join(LOG), d.ask("stack send %d" % m), ",".join(spec_down(case, slots[::-1], m)), "C18:send-order")
        del LOG[:]
        stack.receive(m)
        compare("recv %d" % m, ",".join(LOG), d.ask("stack recv %d" % m), ",".join(spec_up(case, slots, m)), "C18:receive-order")
    # events
    evs = [1, 9] if chk.quick() else [1, 2, 3, 9]
    for ev in evs:
        for det in (0, 1):
            for kind in ("emit", "bcast"):
                emitters = ["stack"] + [l for s in slots for l in members(s)]
                if chk.quick() and len(emitters) > 5:
                    emitters = ["stack"] + chk.rng.sample(emitters[1:], 4)
                for who in emitters:
                    del LOG[:]
                    drain()
                    e = YowLayerEvent(str(ev), detached=True) if det else YowLayerEvent(str(ev))
                    if who == "stack":
                        (stack.emitEvent if kind == "emit" else stack.broadcastEvent)(e)
                        idx = "stack"
                        above = slots if kind == "emit" else slots[::-1]
                        own = []
                    else:
                        layer, i = real_layer(stack, case, who)
                        (layer.emitEvent if kind == "emit" else layer.broadcastEvent)(e)
                        idx = str(i)
                        above = slots[i + 1:] if kind == "emit" else slots[:i][::-1]
                        own = spec_event(case, [slots[i]], ev) if isinstance(slots[i], list) else []
                    sync = ",".join(LOG)
                    q = YowStack._YowStack__detachedQueue
                    ndef = q.qsize()
                    model = d.ask("stack %s %s %d %d" % (kind, idx, ev, det))
                    mseen, mdef = model.split(";deferred:")
                    op = "%s by %s ev=%d detached=%d" % (kind, who, ev, det)
                    compare(op + " (sync)", "%s;deferred:%s" % (sync, "-" if ndef == 0 else "1"),
                            "%s;deferred:%s" % (mseen, "-" if mdef == "-" else "1"))
                    chk.hit("event:%s" % kind, "detached=%d" % det, "deferred=%d" % min(ndef, 1))
                    del LOG[:]
                    run_loop(stack)
                    later = ",".join(LOG)
                    if mdef != "-":
                        mlater = d.ask("stack loop %s %s %d" % (kind, mdef, ev))
                        compare(op + " (loop)", later, mlater)
                    elif later:
                        fails.append(corr("shape:loop", "%s: loop delivered %s but model deferred nothing" % (op, later)))
                    total = ",".join(x for x in (sync, later) if x)
                    expect = ",".join(own + spec_event(case, above, ev))
                    if total != expect:
                        fails.append(oracle("C18:event-order", "%s on shape %s (consumers %s): layers saw %s, expected %s"
                                            % (op, slots, {k: v["cons"] for k, v in case["layers"].items() if v["cons"]}, total, expect)))
    # a stack's properties are its own: what is set on this stack is read back from it and is not visible in another stack of the process
    other = YowStack((RecLayer,), reversed=False)
    key = "org.verif.c18.prop"
    stack.setProp(key, len(slots))
    if stack.getProp(key) != len(slots) or other.getProp(key, "unset") != "unset":
        fails.append(oracle("C18:properties-shared-between-stacks", "setProp on one stack: it reads back %r, another stack built without properties reads %r"
                            % (stack.getProp(key), other.getProp(key, "unset"))))
    # interface lookup by class: the first layer (bottom first, looking into groups) whose class is EXACTLY the one asked for
    flat = [l for sl in slots for l in members(sl)]
    for c, K in sorted(classes.items()):
        got = stack.getLayerInterface(K)
        gv = "-" if got is None else str(got.v)
        model = d.ask("stack iface %d" % c)
        if gv != model:
            fails.append(corr("shape:iface", "getLayerInterface(class %d) on %s (classes %s, derive %s): impl=%s model=%s"
                              % (c, slots, {k: v["cls"] for k, v in case["layers"].items()}, case.get("derive"), gv, model)))
        same = [l for l in flat if case["layers"][str(l)]["cls"] == c]
        if same and all(case["layers"][str(l)]["iface"] is not None for l in same):
            want = str(case["layers"][str(same[0])]["iface"])
            if gv != want:
                fails.append(oracle("C18:interface-lookup", "getLayerInterface(class %d) on %s (layer classes %s, subclass relation %s) returned the interface %s, "
                                    "the first layer of that class is %d with interface %s" % (c, slots, {k: v["cls"] for k, v in case["layers"].items()},
                                                                                              case.get("derive"), gv, same[0], want)))
        chk.hit("iface:%s" % ("derived" if case.get("derive") else "flat"))
    chk.hit("iface-lookups")
    return fails


EXPECT_CORE = ["YowNetworkLayer", "YowNoiseSegmentsLayer", "YowNoiseLayer", "YowCoderLayer", "YowLoggerLayer"]
EXPECT_BASIC = ["YowAuthenticationProtocolLayer", "YowMessagesProtocolLayer", "YowReceiptProtocolLayer", "YowAckProtocolLayer",
                "YowPresenceProtocolLayer", "YowIbProtocolLayer", "YowIqProtocolLayer", "YowNotificationsProtocolLayer",
                "YowContactsIqProtocolLayer", "YowChatstateProtocolLayer", "YowCallsProtocolLayer"]
OPTIONAL = [("groups", "YowGroupsProtocolLayer"), ("media", "YowMediaProtocolLayer"), ("privacy", "YowPrivacyProtocolLayer"),
            ("profiles", "YowProfilesProtocolLayer")]


def _names(item):
    if isinstance(item, tuple):
        return [c.__name__ for c in item]
    if isinstance(item, YowParallelLayer):
        return [type(s).__name__ for s in item.sublayers]
    if isinstance(item, type):
        return item.__name__
    return type(item).__name__


def run_helpers(chk):
    fails = []
    B = YowStackBuilder
    for f in itertools.product([False, True], repeat=4):
        kw = dict(zip(("groups", "media", "privacy", "profiles"), f))
        prot = EXPECT_BASIC + [n for (k, n) in OPTIONAL if kw[k]]
        expect = EXPECT_CORE + ["AxolotlControlLayer", ["AxolotlSendLayer", "AxolotlReceivelayer"], prot]
        try:
            got = [_names(x) for x in B.getDefaultLayers(**kw)]
            if got[:7] != expect[:7] or sorted(got[7]) != sorted(expect[7]) or len(got) != 8:
                fails.append(oracle("C18:getDefaultLayers-wrong", "flags %s: %s" % (kw, got)))
        except Exception as e:
            fails.append(oracle("C18:getDefaultLayers-raises", "flags %s: %s: %s" % (kw, type(e).__name__, e)))
        for ax in (False, True):
            for extra in (False, True):
                chk.hit("getDefaultStack-call")
                try:
                    st = B.getDefaultStack(layer=RecLayer if extra else None, axolotl=ax, **kw)
                    got = []
                    i = 0
                    while True:
                        try:
                            got.append(_names(st.getLayer(i)))
                        except IndexError:
                            break
                        i += 1
                    exp = expect + (["RecLayer"] if extra else [])
                    if got[:7] != exp[:7] or sorted(got[7]) != sorted(exp[7]) or got[8:] != exp[8:]:
                        fails.append(oracle("C18:getDefaultStack-wrong", "axolotl=%s %s extra=%s: %s" % (ax, kw, extra, got)))
                except Exception as e:
                    fails.append(oracle("C18:getDefaultStack-raises:" + type(e).__name__,
                                        "getDefaultStack(axolotl=%s, %s%s): %s: %s" % (ax, kw, ", layer=<cls>" if extra else "", type(e).__name__, e)))
    fails.extend(run_builder_scripts(chk))
    return fails


def run_builder_scripts(chk):
    """push / pop / pushDefaultLayers in every order on one builder: the stack built holds, bottom to top, what a plain list
    holds after the same appends, removals of the last item and extensions by the default layers"""
    import random
    fails = []
    r = random.Random(1807)
    fixed = [["push", "default"], ["push", "push", "default", "push"], ["default", "push"], ["push", "pop", "default"], ["push", "default", "pop", "push"],
             ["default", "default"], ["push", "default", "default", "push"], ["pop", "push", "default"], ["default", "pop", "pop", "push"]]
    scripts = fixed + [[r.choice(["push", "push", "pop", "default"]) for _ in range(r.randrange(1, 7))] for _ in range(40)]
    defaults = [_names(x) for x in YowStackBuilder.getDefaultLayers()]
    from gen.defaultlayers import IDS

    def tok(x):      # a slot in the driver's notation
        if isinstance(x, list):
            return "P" + ",".join(str(IDS.get(n, 99)) for n in x)
        return "S%d" % (900 + int(x[6:]) if x.startswith("Pushed") else IDS.get(x, 99))
    for sc in scripts:
        chk.hit("builder-script")
        b = YowStackBuilder()
        expect = []
        n = 0
        try:
            for op in sc:
                if op == "push":
                    n += 1
                    b.push(type("Pushed%d" % n, (RecLayer,), {"LID": 900 + n}))
                    expect.append("Pushed%d" % n)
                elif op == "pop":
                    b.pop()
                    expect = expect[:-1]
                else:
                    b.pushDefaultLayers()
                    expect.extend(defaults)
            if not expect:
                continue
            st = b.build()
            got = []
            i = 0
            while True:
                try:
                    got.append(_names(st.getLayer(i)))
                except IndexError:
                    break
                i += 1
            norm = lambda L: [sorted(x) if isinstance(x, list) else x for x in L]
            # the model's builder on the same calls (pushDefaultLayers = extend by the default layers as getDefaultLayers() of the current source gives them)
            line, k = [], 0
            for op in sc:
                if op == "push":
                    k += 1
                    line.append("S%d" % (900 + k))
                elif op == "pop":
                    line.append("pop")
                else:
                    line.append("E" + ";".join(tok(x) for x in defaults))
            model = chk.driver.ask("stack builder " + " ".join(line))
            impl = " ".join(tok(x) for x in got)
            if impl != model:
                fails.append(corr("builder", "builder script %s: impl=%s model=%s" % (sc, impl, model)))
            if norm(got) != norm(expect):
                fails.append(oracle("C18:builder-script-wrong", "builder script %s: the stack holds, bottom to top, %s; the calls made add up to %s" % (sc, got, expect)))
        except Exception as e:
            fails.append(oracle("C18:builder-script-raises:" + type(e).__name__, "builder script %s: %s: %s" % (sc, type(e).__name__, e)))
    return fails


def shrink(stream, case):
    if stream in ("helpers", "reuse"):
        return
    slots = case["slots"]
    for i in range(len(slots)):
        if len(slots) > 1:
            c = dict(case)
            c["slots"] = slots[:i] + slots[i + 1:]
            c["form"] = case["form"][:i] + case["form"][i + 1:]
            yield c
    for i, s in enumerate(slots):
        if isinstance(s, list) and len(s) > 1:
            c = dict(case)
            c["slots"] = slots[:i] + [s[:-1]] + slots[i + 1:]
            yield c
    for k, v in case["layers"].items():
        if v["tx"] != "pass" or v["rx"] != "pass":
            c = dict(case)
            c["layers"] = dict(case["layers"])
            c["layers"][k] = dict(v, tx="pass", rx="pass")
            yield c
