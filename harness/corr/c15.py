"""C15  Media encryption — Model/MediaCipher.lean (padding, layout, verify-then-decrypt) vs the real
MediaCipher, and the property oracle: lossless round trip, tamper / wrong key / wrong kind rejected,
ciphertext identical to an independent implementation of the WhatsApp layout (stdlib HKDF + openssl AES)."""
import hashlib
import hmac

import boot  # noqa: F401
from core import corr, oracle
from lib import refcrypto

PID = "C15"
GEN = ["mediaconsts"]
LEAN_MODULES = ["YowsupVerif.Props.C15"]
RULE = ("stream 'roundtrip': plaintext lengths 0..64 exhaustively (thorough: 0..1024 and samples to 1 MiB) x 4 media kinds x random 32-byte "
        "keys: real encrypt -> real decrypt must return the plaintext; the ciphertext must equal the independent reference (RFC 5869 HKDF "
        "from the stdlib, AES-256-CBC by the openssl CLI with PKCS#7, HMAC-SHA256 over IV||ciphertext truncated to 10); its length and the "
        "padded plaintext (recovered with openssl -nopad) must equal the Lean model's. stream 'tamper': every single-byte corruption position "
        "(sampled in quick for long inputs) and every truncation of the ciphertext must raise. stream 'wrong': other key / other media kind "
        "must raise. stream 'unpad': ciphertexts with a valid tag whose last block carries arbitrary padding bytes: real decrypt result vs the "
        "model's unpad. stream 'shared': one cipher object used by 2-3 threads at once (cooperative scheduler, scheduling points at the cipher's source lines): "
        "each call must give the result it gives alone. distinct = distinct (stream, length, kind, key, position).")
RULE += (' The per-kind entry points (encrypt_image / decrypt_audio / ...) are compared with the reference blob of their kind and fed blobs of another kind.')
RULE += (" The reference implementation spells the four key-derivation labels itself.")
ASSUMPTIONS = ["AES-256-CBC is a keyed bijection on whole blocks (cryptography / openssl agree on it)", "HMAC-SHA256 and HKDF are modelled as abstract functions; "
               "collision-freeness of the truncated MAC on the compared inputs is a named hypothesis of the tamper theorems, exercised here on real inputs",
               "openssl CLI + stdlib HKDF = the independent implementation of the WhatsApp media layout"]
EXHAUSTIVE = {"quick": False, "thorough": False}
KINDS = ["image", "audio", "video", "document"]


def setup(chk):
    from yowsup.layers.protocol_media.mediacipher import MediaCipher
    chk.mc = MediaCipher()
    # the independent implementation spells WhatsApp's key-derivation labels itself (the same literals Props/C15.lean's C15_info_strings compares the
    # regenerated ones with): a library that derives a kind's keys from another label produces blobs no other client can read
    chk.infos = {"image": b"WhatsApp Image Keys", "audio": b"WhatsApp Audio Keys", "video": b"WhatsApp Video Keys", "document": b"WhatsApp Document Keys"}


def cases(chk):
    r = chk.rng
    keys = [bytes(r.randrange(256) for _ in range(32)).hex() for _ in range(3)]
    top = 64 if chk.quick() else 1024
    for n in range(0, top + 1):
        kinds = KINDS if n <= 64 else [r.choice(KINDS)]
        for kind in kinds:
            yield "roundtrip", {"len": n, "kind": kind, "key": keys[n % 3] if n > 16 else keys[0], "seed": n}
    for n in ([100000] if chk.quick() else [65535, 65536, 1000000, 1048576]):
        yield "roundtrip", {"len": n, "kind": r.choice(KINDS), "key": keys[1], "seed": n}
    # plaintexts that END like padding: the last k bytes equal the pad value this length gets (16 - n % 16), or another valid pad value —
    # an unpadder that looks at the content instead of the count shortens exactly these
    for n in list(range(1, 50)) + [63, 64, 65, 255, 256, 4095, 4096]:
        own = 16 - n % 16
        for pv, k in ((own, 1), (own, min(n, own)), (own, min(n, own + 3)), (1, min(n, 2)), (16, min(n, 16)), (own % 16 + 1, 1)):
            yield "roundtrip", {"len": n, "kind": KINDS[(n + k) % len(KINDS)], "key": keys[n % 3], "seed": n, "tail": [pv, k]}
    # sizes whose padded ciphertext ends at, just before or just after a power of two / an integer constant of the current source
    # (chunked processing): plaintext lengths b-17, b-16, b-1, b, b+1 for every such b
    from lib.probes import harvest_ints
    bounds = set(1 << k for k in range(9, 18 if chk.quick() else 21)) | set(v for v in harvest_ints(["yowsup/layers/protocol_media/mediacipher.py"]) if 256 <= v <= (1 << 21))
    for b in sorted(bounds):
        for n in (b - 17, b - 16, b - 1, b, b + 1) + ((2 * b - 16, 2 * b - 1) if b <= 1 << 17 else ()):
            yield "roundtrip", {"len": n, "kind": KINDS[n % len(KINDS)], "key": keys[n % 3], "seed": n}
            if n in (b - 16, b - 1):
                yield "tamper", {"len": n, "kind": KINDS[n % len(KINDS)], "key": keys[n % 3], "seed": n, "all": False}
    for n in list(range(0, 49 if not chk.quick() else 34)):
        yield "tamper", {"len": n, "kind": KINDS[n % 4], "key": keys[n % 3], "seed": n, "all": (not chk.quick()) or n in (0, 1, 15, 16, 17, 32)}
    for n in (0, 1, 15, 16, 17, 31, 32, 33, 48, 64):
        for kind in KINDS:
            yield "wrong", {"len": n, "kind": kind, "key": keys[0], "other": keys[1], "seed": n}
    # keys are 32 arbitrary bytes: every byte value at the first and at the last position (a key "tidied up" like text — stripped, decoded,
    # NUL-terminated — shows only for particular edge bytes), all-zero / all-0xff keys, and a neighbour key that differs only in that byte
    for b in range(256):
        body = bytes(r.randrange(1, 255) for _ in range(30))
        for pos, key in (("first", bytes([b]) + body + b"\x5a"), ("last", b"\xa5" + body + bytes([b]))):
            if chk.quick() and pos == "first" and b % 2:
                continue
            other = bytearray(key)
            other[0 if pos == "first" else 31] ^= 0x2a
            yield "roundtrip", {"len": 18 + b % 5, "kind": KINDS[b % len(KINDS)], "key": key.hex(), "seed": b, "edge": pos}
            yield "wrong", {"len": 18, "kind": KINDS[b % len(KINDS)], "key": key.hex(), "other": bytes(other).hex(), "seed": b}
    for key in (bytes(32), b"\xff" * 32, b" " * 32, b"\n" * 31 + b"x"):
        yield "roundtrip", {"len": 20, "kind": "image", "key": key.hex(), "seed": 1, "edge": "uniform"}
    for i in range(chk.scale(120, 2000)):
        nblocks = r.choice([1, 1, 2, 3])
        last = [r.randrange(256) for _ in range(16)]
        k = r.random()
        if k < 0.5:
            p = r.choice([0, 1, 2, 15, 16, 17, 255])
            cnt = r.choice([1, 2, 15, 16]) if p == 0 else min(16, p)
            last = last[:16 - min(cnt, 16)] + [p] * min(cnt, 16)
            if r.random() < 0.3 and cnt > 1:
                last[16 - cnt] = (p + 1) % 256       # one wrong padding byte
        body = bytes(r.randrange(256) for _ in range(16 * (nblocks - 1))) + bytes(last)
        yield "unpad", {"padded": body.hex(), "kind": r.choice(KINDS), "key": keys[i % 3]}
    yield "unpad", {"padded": "", "kind": "image", "key": keys[0]}
    yield "optimized", {"lens": [0, 1, 15, 16, 17, 33, 64, 1000]}
    # one cipher object used by several threads at once (a download and an upload, two downloads): each caller passes its own key and kind, so
    # each must get the result of its own call, whatever the interleaving (scheduling points at source lines of the cipher)
    for i in range(chk.scale(40, 1500)):
        jobs = []
        for _j in range(r.choice([2, 2, 3])):
            jobs.append({"op": r.choice(["encrypt", "decrypt", "decrypt-wrong-kind"]), "len": r.choice([0, 1, 15, 16, 17, 40, 200]), "kind": r.choice(KINDS),
                         "key": bytes(r.randrange(256) for _ in range(32)).hex(), "seed": r.randrange(1 << 20)})
        yield "shared", {"jobs": jobs, "sched": r.randrange(1 << 30), "prob": r.choice([0.15, 0.4, 0.8])}


def nontrivial(stream, case):
    return (stream, repr(sorted(case.items())))


def _plain(case):
    import random
    rr = random.Random(case["seed"])
    n = case["len"]
    if n <= 4096:
        data = bytes(rr.randrange(256) for _ in range(n))
    else:
        data = bytes([rr.randrange(256)]) * n
    if case.get("tail"):
        pv, k = case["tail"]
        data = data[:n - k] + bytes([pv]) * k
    return data


def run_optimized(chk, case):
    """the rejection of modified ciphertexts must not depend on the interpreter's optimisation switch: the same tamper / wrong-key / wrong-kind
    probes in a child process started with `python -O` (assert statements are compiled away there)"""
    import json
    import os
    import subprocess
    import sys
    code = (
        "import sys, json; sys.path.insert(0, %r); import boot\n"
        "from yowsup.layers.protocol_media.mediacipher import MediaCipher\n"
        "mc = MediaCipher(); out = []\n"
        "infos = [MediaCipher.INFO_IMAGE, MediaCipher.INFO_AUDIO]\n"
        "key = bytes(range(32)); other = bytes(range(1, 33))\n"
        "for n in %r:\n"
        "    p = bytes((7 * i + n) %% 256 for i in range(n)); ct = mc.encrypt(p, key, infos[0])\n"
        "    probes = [('tag byte %%d flipped' %% k, ct[:len(ct) - 10 + k] + bytes([ct[len(ct) - 10 + k] ^ 1]) + ct[len(ct) - 9 + k:], key, infos[0]) for k in (0, 9)]\n"
        "    probes += [('body byte %%d flipped' %% k, ct[:k] + bytes([ct[k] ^ 0x80]) + ct[k + 1:], key, infos[0]) for k in (0, len(ct) - 11)]\n"
        "    probes += [('truncated by 1', ct[:-1], key, infos[0]), ('one byte appended', ct + b'x', key, infos[0]), ('wrong key', ct, other, infos[0]), ('wrong kind', ct, key, infos[1])]\n"
        "    for what, x, k_, i_ in probes:\n"
        "        try:\n"
        "            q = mc.decrypt(x, k_, i_); out.append([n, what, 'same plaintext' if q == p else 'different plaintext'])\n"
        "        except Exception:\n"
        "            pass\n"
        "    assert_on = False\n"
        "print(json.dumps({'accepted': out, 'optimized': not __debug__}))\n" % (os.path.dirname(os.path.dirname(os.path.abspath(__file__))), case["lens"]))
    p = subprocess.run([sys.executable, "-O", "-c", code], stdout=subprocess.PIPE, stderr=subprocess.PIPE, timeout=120, env=dict(os.environ))
    chk.hit("optimized-child")
    try:
        res = json.loads(p.stdout.decode().strip().splitlines()[-1])
    except Exception:
        return [oracle("C15:optimized-child-fails", "python -O child: exit %d, %s" % (p.returncode, p.stderr.decode(errors="replace").strip().splitlines()[-1:]))]
    if not res["optimized"]:
        chk.notes.append("python -O child did not run optimised")
    if res["accepted"]:
        n, what, how = res["accepted"][0]
        return [oracle("C15:tamper-accepted:optimized-interpreter", "under `python -O` (assert statements removed): plaintext of %d bytes, %s: accepted, %s returned (%d probes accepted in all)"
                       % (n, what, how, len(res["accepted"])))]
    return []


def run_shared(chk, case):
    import random
    from lib import coop
    from yowsup.layers.protocol_media.mediacipher import MediaCipher
    mc = MediaCipher()
    infos = chk.infos
    jobs = case["jobs"]
    want, got, inputs = [], [None] * len(jobs), []
    for j in jobs:
        key, info = bytes.fromhex(j["key"]), infos[j["kind"]]
        p = _plain(j)
        ref, _k = refcrypto.media_encrypt_ref(p, key, info)
        if j["op"] == "encrypt":
            inputs.append((p, key, info))
            want.append(("ok", ref))
        elif j["op"] == "decrypt":
            inputs.append((ref, key, info))
            want.append(("ok", p))
        else:
            other = infos[KINDS[(KINDS.index(j["kind"]) + 1) % len(KINDS)]]
            inputs.append((ref, key, other))
            want.append(("err", None))
    c = coop.Coop()
    rr = random.Random(case["sched"])
    c.preempt_lines(["protocol_media/mediacipher.py"], case["prob"], rr)

    def make(i):
        def job():
            data, key, info = inputs[i]
            try:
                got[i] = ("ok", (mc.encrypt if jobs[i]["op"] == "encrypt" else mc.decrypt)(data, key, info))
            except Exception as e:
                got[i] = ("err", type(e).__name__)
        return job
    for i in range(len(jobs)):
        c.spawn(make(i))
    c.run(coop.chooser(rr))
    chk.hit("shared:threads=%d" % len(jobs), "shared:switches=%s" % min(9, sum(1 for a, b in zip(c.choices, c.choices[1:]) if a != b)))
    fails = []
    for i, j in enumerate(jobs):
        g, w = got[i], want[i]
        if g is None or g[0] != w[0] or (w[0] == "ok" and g[1] != w[1]):
            what = ("raised %s" % g[1]) if g and g[0] == "err" else ("returned %d bytes%s" % (len(g[1]), " that are not the result of its own call" if w[0] == "ok" else
                                                                     " of plaintext for a blob of another media kind")) if g else "did not finish"
            fails.append(oracle("C15:shared-cipher-object:%s" % ("wrong-result" if w[0] == "ok" else "accepted"),
                                "one MediaCipher object used by %d threads at once (%s): thread %d's %s of %d bytes (%s) %s; alone, the same call %s"
                                % (len(jobs), ", ".join(x["op"] for x in jobs), i, j["op"], j["len"], j["kind"], what,
                                   "returns the reference result" if w[0] == "ok" else "is rejected")))
            break
    return fails


def run_case(chk, stream, case):
    if stream == "optimized":
        return run_optimized(chk, case)
    if stream == "shared":
        return run_shared(chk, case)
    fails = []
    mc, info = chk.mc, chk.infos[case["kind"]]
    key = bytes.fromhex(case["key"])
    if stream == "unpad":
        padded = bytes.fromhex(case["padded"])
        d = refcrypto.hkdf_sha256(key, info, 112)
        iv, k, mk = d[:16], d[16:48], d[48:80]
        body = refcrypto.aes256_cbc_encrypt(k, iv, padded, pad=False) if padded else b""
        x = body + hmac.new(mk, iv + body, hashlib.sha256).digest()[:10]
        try:
            impl = "ok " + (mc.decrypt(x, key, info).hex() or "-")
        except Exception:
            impl = "err"
        model = chk.driver.ask("media unpad %s" % (case["padded"] or "-"))
        chk.hit("unpad:" + impl.split()[0])
        if impl != model:
            fails.append(corr("unpad", "decrypted block(s) %s: impl=%s model=%s" % (case["padded"][-32:], impl[:80], model[:80])))
        return fails
    p = _plain(case)
    n = len(p)
    chk.hit("len%%16=%d" % (n % 16) if n <= 64 else "len>64", "kind:" + case["kind"])
    try:
        ct = mc.encrypt(p, key, info)
    except Exception as e:
        return [oracle("C15:encrypt-raises", "encrypting %d bytes (%s): %s: %s" % (n, case["kind"], type(e).__name__, e))]
    if stream == "roundtrip":
        # model: length and padding
        mlen = int(chk.driver.ask("media enclen %d" % n))
        d = refcrypto.hkdf_sha256(key, info, 112)
        iv, k = d[:16], d[16:48]
        if len(ct) != mlen:
            fails.append(corr("roundtrip:length", "plaintext of %d bytes: ciphertext has %d bytes, model says %d" % (n, len(ct), mlen)))
        elif n <= 4096:
            padded = refcrypto.aes256_cbc_decrypt(k, iv, ct[:-10], pad=False)
            mp = chk.driver.ask("media pad %s" % (p.hex() or "-"))
            if (padded.hex() or "-") != mp:
                fails.append(corr("roundtrip:padding", "plaintext of %d bytes: padded plaintext inside the ciphertext %s, model %s" % (n, padded[-20:].hex(), mp[-40:])))
        # oracle 1: lossless
        try:
            back = mc.decrypt(ct, key, info)
            if back != p:
                fails.append(oracle("C15:roundtrip-differs", "plaintext of %d bytes (%s): decrypt(encrypt(p)) has %d bytes%s"
                                    % (n, case["kind"], len(back), "" if len(back) != n else " and differs")))
        except Exception as e:
            fails.append(oracle("C15:roundtrip-raises", "plaintext of %d bytes (%s): decrypt(encrypt(p)) raises %s: %s" % (n, case["kind"], type(e).__name__, e)))
        # oracle 2: WhatsApp-compatible layout
        ref, _keys = refcrypto.media_encrypt_ref(p, key, info)
        if ref != ct:
            fails.append(oracle("C15:layout-differs", "plaintext of %d bytes (%s): ciphertext (%d bytes) differs from the independent implementation (%d bytes)"
                                % (n, case["kind"], len(ct), len(ref))))
        # oracle 3: the per-kind entry points (encrypt_image / decrypt_audio / ...) are the same function of (content, key, THEIR kind): same blob
        # as the reference for that kind, a blob of that kind comes back, a blob of another kind is rejected
        if n <= 64 or n % 7 == 0:
            kind = case["kind"]
            other = KINDS[(KINDS.index(kind) + 1 + n % 3) % len(KINDS)]
            try:
                ek = getattr(mc, "encrypt_" + kind)(p, key)
                dk = getattr(mc, "decrypt_" + kind)(ref, key)
            except Exception as e:
                ek = dk = None
                fails.append(oracle("C15:kind-entry-point:%s" % kind, "encrypt_%s / decrypt_%s on %d bytes and the reference blob of that kind: %s: %s" % (kind, kind, n, type(e).__name__, e)))
            if ek is not None and (ek != ref or dk != p):
                fails.append(oracle("C15:kind-entry-point:%s" % kind, "plaintext of %d bytes: %s" % (n, "encrypt_%s does not produce the %s blob of the independent implementation" % (kind, kind)
                                    if ek != ref else "decrypt_%s does not return the content of a genuine %s blob" % (kind, kind))))
            if other != kind:
                try:
                    out = getattr(mc, "decrypt_" + other)(ref, key)
                    fails.append(oracle("C15:kind-entry-point:wrong-kind-accepted", "plaintext of %d bytes: decrypt_%s accepts a genuine %s blob (%d bytes returned)" % (n, other, kind, len(out))))
                except Exception:
                    chk.hit("kind-entry-point:other-kind-rejected")
        if ref == ct and n in (0, 16, 33):
            mk = _keys[2]
            if refcrypto.hmac_sha256_openssl(mk, iv + ct[:-10])[:10] != ct[-10:]:
                fails.append(oracle("C15:layout-differs", "tag differs from openssl's HMAC for %d bytes" % n))
    elif stream == "tamper":
        positions = list(range(len(ct))) if case["all"] else sorted(set([0, len(ct) - 1, len(ct) - 10, len(ct) - 11, len(ct) // 2]) & set(range(len(ct))))
        for pos in positions:
            x = bytearray(ct)
            x[pos] ^= 0x01 if pos % 2 else 0x80
            chk.hit("tamper:flip")
            try:
                out = mc.decrypt(bytes(x), key, info)
            except Exception:
                continue
            fails.append(oracle("C15:tamper-accepted", "plaintext of %d bytes: flipping a bit of ciphertext byte %d/%d is accepted and yields %d bytes"
                                % (n, pos, len(ct), len(out))))
            break
        for cut in range(1, len(ct) + 1) if case["all"] else [1, 10, 16, len(ct)]:
            if cut > len(ct):
                continue
            chk.hit("tamper:truncate")
            try:
                out = mc.decrypt(ct[:len(ct) - cut], key, info)
            except Exception:
                continue
            fails.append(oracle("C15:tamper-accepted", "plaintext of %d bytes: ciphertext truncated by %d bytes is accepted (%d bytes returned)" % (n, cut, len(out))))
            break
        # modifications that LENGTHEN the blob: bytes appended after the tag, bytes put in front, a block inserted before the tag, the tag doubled
        import random as _random
        rr = _random.Random(case["seed"])
        longer = []
        for extra in (range(1, 33) if case["all"] else [1, 6, 10, 15, 16, 17]):
            longer.append(("%d byte(s) appended after the tag" % extra, ct + bytes(rr.randrange(256) for _ in range(extra))))
            longer.append(("%d zero byte(s) appended after the tag" % extra, ct + bytes(extra)))
        longer.append(("the tag appended a second time", ct + ct[-10:]))
        longer.append(("one byte put in front", b"\x00" + ct))
        longer.append(("a block inserted before the tag", ct[:-10] + bytes(16) + ct[-10:]))
        longer.append(("the last block doubled", ct[:-10] + ct[-26:-10] + ct[-10:]))
        for what_, x in longer:
            chk.hit("tamper:lengthen")
            try:
                out = mc.decrypt(x, key, info)
            except Exception:
                continue
            fails.append(oracle("C15:tamper-accepted", "plaintext of %d bytes: ciphertext with %s is accepted (%d bytes returned%s)"
                                % (n, what_, len(out), ", the original plaintext" if out == p else "")))
            break
    elif stream == "wrong":
        other = bytes.fromhex(case["other"])
        try:
            mc.decrypt(ct, other, info)
            accepted = True
        except Exception:
            accepted = False
        if accepted:
            fails.append(oracle("C15:wrong-key-accepted", "plaintext of %d bytes decrypts under a different key" % n))
        for k2, i2 in chk.infos.items():
            if k2 == case["kind"]:
                continue
            chk.hit("wrong-kind")
            try:
                mc.decrypt(ct, key, i2)
            except Exception:
                continue
            fails.append(oracle("C15:wrong-kind-accepted", "%s ciphertext of %d bytes decrypts as %s" % (case["kind"], n, k2)))
    return fails


def shrink(stream, case):
    return
    yield
