"""C20  Registration requests — Model/Registration.lean vs the real AndroidYowsupEnv.getToken,
WARequest.urlencode / urlencodeParams / encryptParams; oracle with independent implementations
(openssl HMAC-SHA1, urllib.parse.unquote, cryptography's X25519 + AESGCM)."""
import base64
import hashlib
import hmac as stdhmac
import struct
import urllib.parse

import boot  # noqa: F401
from core import corr, oracle
from lib import refcrypto

PID = "C20"
GEN = ["regconsts"]
LEAN_MODULES = ["YowsupVerif.Props.C20"]
RULE = ("stream 'token': phone-number strings (digits of length 1..20, leading zeros/plus, unicode digits, empty) -> real getToken vs "
        "RFC 2104 HMAC-SHA1 keyed with the first 64 key bytes computed by openssl and by the stdlib, and vs SHA1 applied to the Lean model's "
        "pads and message layout. stream 'value': every byte value 0..255 (bytes and str), code points at every UTF-8 length boundary and "
        "random ones, ints, mixed strings -> real urlencode vs the Lean model; standard decoding (urllib.parse.unquote/unquote_to_bytes) must "
        "return the value; only [A-Za-z0-9.] may appear literally and escapes are lower-case. stream 'params': random parameter lists with "
        "str/bytes/int values: real urlencodeParams vs model; parse_qsl must return the pairs in order. stream 'blob': random recipient key "
        "pairs (cryptography X25519): the ENC payload is opened with the matching private key (cryptography AESGCM, zero nonce) and must equal "
        "the encoded parameter string; two calls must use different ephemeral keys. stream 'request': real WACodeRequest / WAExistsRequest / "
        "WARegRequest objects for country code x national number (the country code's digits again inside / at the start / at the end of the national "
        "number, leading zeros) sent with preview=True to a transport double, the server key replaced by one whose private half the check holds: the blob "
        "opens to the request's parameters in order under standard decoding, cc / in are the number's parts, token = independent HMAC-SHA1 of the "
        "national number. distinct = distinct input.")
RULE += (" The order in which parameters were added is recorded independently of the request's own list (which a send must not rearrange).")
RULE += (' Token cases with environment subclasses that override key / signature / class digest.')
RULE += (' Requests built after switches of the environment (derived -> stock, stock -> derived).')
ASSUMPTIONS = ["SHA-1 (hashlib) is the hash function; X25519 agreement is symmetric; AES-GCM decrypt inverts encrypt (cryptography / python-axolotl curve)",
               "lone surrogates are rejected by urllib.parse.quote and are outside the model", "freshness of the ephemeral key is a runtime property: exercised, not proved"]


def setup(chk):
    from yowsup.env.env_android import AndroidYowsupEnv
    from yowsup.common.http.warequest import WARequest
    from gen.regconsts import consts
    chk.env = AndroidYowsupEnv()
    chk.WAR = WARequest
    chk.key, chk.sig, chk.cls, chk.pub = consts()
    # ephemeral key pairs whose public key starts / ends with every possible byte value: the blob's key field is cut out of the
    # serialised key, a slip there shows only for particular key bytes (one draw in 256)
    from axolotl.ecc.curve import Curve
    chk.keypool = {}
    for _ in range(60000):
        kp = Curve.generateKeyPair()
        raw = bytes(kp.publicKey.serialize()[1:])
        for tag in (("first", raw[0]), ("last", raw[-1]), ("second", raw[1])):
            chk.keypool.setdefault(tag, kp)
        if len(chk.keypool) >= 256 + 128 + 256:
            break
    pads = chk.driver.ask("reg pads")
    ip, op = pads.split(";")
    chk.ipad, chk.opad = bytes.fromhex(ip.split(":")[1]), bytes.fromhex(op.split(":")[1])


def cases(chk):
    r = chk.rng
    for ph in ["", "0", "491234567890", "+491234567890", "00491234", "1" * 20, u"٤٩١٢٣", "49 123", "4915\n", u"é123"]:
        yield "token", {"phone": ph}
    for _ in range(chk.scale(300, 20000)):
        n = r.randint(1, 20)
        yield "token", {"phone": "".join(r.choice("0123456789") for _ in range(n))}
    # an environment of the application's own (a newer WhatsApp build: another key, signature, class digest — the documented way to keep up with
    # WhatsApp is to subclass the environment and override the constants): the token is computed from THAT environment's constants
    for i in range(chk.scale(12, 300)):
        yield "token", {"phone": "".join(r.choice("0123456789") for _ in range(r.randint(5, 13))), "env": {"key": i % 3 != 1, "sig": i % 3 != 2, "cls": i % 2 == 0, "seed": i}}
    for b in range(256):
        yield "value", {"kind": "bytes", "hex": bytes([b]).hex()}
        yield "value", {"kind": "str", "cps": [b]}
    edges = [0x7F, 0x80, 0x7FF, 0x800, 0xFFFF, 0x10000, 0x10FFFF, 0xD7FF, 0xE000, 0x20AC, 0x1F600, 0xFFFD]
    for c in edges:
        for d in (-1, 0, 1):
            if 0 <= c + d <= 0x10FFFF and not (0xD800 <= c + d <= 0xDFFF):
                yield "value", {"kind": "str", "cps": [c + d]}
    for _ in range(chk.scale(600, 40000)):
        k = r.random()
        if k < 0.4:
            cps = [r.choice([r.randrange(0x80), r.randrange(0x80, 0x800), r.randrange(0x800, 0xD800), r.randrange(0xE000, 0x10000),
                             r.randrange(0x10000, 0x110000)]) for _ in range(r.randint(0, 12))]
            yield "value", {"kind": "str", "cps": cps}
        elif k < 0.7:
            yield "value", {"kind": "bytes", "hex": bytes(r.randrange(256) for _ in range(r.randint(0, 40))).hex()}
        elif k < 0.85:
            yield "value", {"kind": "int", "n": r.choice([0, 1, 6, 443, -5, 10 ** 12, r.randrange(10 ** 6)])}
        else:
            yield "value", {"kind": "str", "cps": [ord(ch) for ch in r.choice(["a-b_c~d.e", "A%41", "a b+c", "x=y&z", "%", "%%2", "~~--__", "en", "GB"])]}
    for _ in range(chk.scale(200, 5000)):
        ps = []
        for _i in range(r.randint(1, 8)):
            k = "".join(r.choice("abcdefghijklmnopqrstuvwxyz_") for _ in range(r.randint(1, 10)))
            t = r.random()
            if t < 0.4:
                v = {"kind": "str", "cps": [r.choice([r.randrange(32, 127), r.randrange(0x80, 0x800), r.randrange(0x800, 0xD800)]) for _ in range(r.randint(0, 10))]}
            elif t < 0.8:
                v = {"kind": "bytes", "hex": bytes(r.randrange(256) for _ in range(r.randint(0, 20))).hex()}
            else:
                v = {"kind": "int", "n": r.randrange(10000)}
            ps.append([k, v])
        yield "params", {"params": ps}
    for i in range(chk.scale(40, 600)):
        ps = [["cc", {"kind": "str", "cps": [52, 57]}], ["in", {"kind": "str", "cps": [ord(c) for c in str(r.randrange(10 ** 9))]}],
              ["authkey", {"kind": "bytes", "hex": bytes(r.randrange(256) for _ in range(32)).hex()}],
              ["pid", {"kind": "int", "n": r.randrange(100, 9999)}], ["x", {"kind": "str", "cps": [r.randrange(0x80, 0x800) for _ in range(r.randint(0, 4))]}]]
        yield "blob", {"params": ps[:r.randint(1, 5)], "seed": i}
    ccs = ["1", "7", "20", "44", "49", "52", "91", "351", "972", "998"]
    for i in range(chk.scale(36, 400)):
        cc = r.choice(ccs)
        shape = i % 6
        body = "".join(r.choice("0123456789") for _ in range(r.randint(5, 10)))
        if shape == 0:
            nat = body
        elif shape == 1:                         # the country code's digits again inside the national number
            k = r.randint(1, len(body) - 1)
            nat = body[:k] + cc + body[k:]
        elif shape == 2:                         # ... at its start
            nat = cc + body
        elif shape == 3:                         # ... at its end, and twice
            nat = body[:3] + cc + body[3:] + cc
        elif shape == 4:                         # starting with digits that occur in the country code (strip-like slips)
            nat = "".join(r.choice(cc) for _ in range(r.randint(1, 3))) + body
        else:                                    # leading zero kept
            nat = "0" + body
        yield "request", {"cc": cc, "national": nat, "kind": ["code", "exists", "reg", "code-noid"][i % 4], "seed": i}
        if i % 6 in (1, 4):
            yield "request", {"cc": cc, "national": nat, "kind": ["code", "exists"][i % 2], "seed": i, "envswitch": 1 + (i // 6) % 2}
    for tag in sorted(chk.keypool):
        if chk.quick() and tag[0] == "second" and tag[1] not in (0, 5, 255):
            continue
        yield "blob", {"params": [["cc", {"kind": "str", "cps": [52, 57]}], ["in", {"kind": "str", "cps": [49, 50, 51]}]], "seed": 0, "ephemeral": [tag[0], tag[1]]}


def nontrivial(stream, case):
    return (stream, repr(case))


def _value(v):
    if v["kind"] == "bytes":
        return bytes.fromhex(v["hex"])
    if v["kind"] == "int":
        return v["n"]
    return "".join(chr(c) for c in v["cps"])


def _as_bytes(val):
    if isinstance(val, bytes):
        return val
    return str(val).encode("utf-8")


def _model_enc(chk, v):
    if v["kind"] == "bytes":
        out = chk.driver.ask("reg encb %s" % (v["hex"] or "-"))
    elif v["kind"] == "int":
        out = chk.driver.ask("reg encb %s" % (str(v["n"]).encode().hex()))
    else:
        out = chk.driver.ask("reg encs %s" % (",".join(map(str, v["cps"])) or "-"))
    return "" if out == "-" else bytes.fromhex(out).decode("latin-1")


def run_case(chk, stream, case):
    fails = []
    if stream == "token":
        ph = case["phone"]
        if case.get("env"):
            import random
            from yowsup.env.env_android import AndroidYowsupEnv
            rr = random.Random(case["env"]["seed"])
            ov = {}
            if case["env"]["key"]:
                ov["_KEY"] = base64.b64encode(bytes(rr.randrange(256) for _ in range(80))).decode()
            if case["env"]["sig"]:
                ov["_SIGNATURE"] = base64.b64encode(bytes(rr.randrange(256) for _ in range(rr.choice([100, 822])))).decode()
            if case["env"]["cls"]:
                ov["_MD5_CLASSES"] = base64.b64encode(bytes(rr.randrange(256) for _ in range(16))).decode()
            Sub = type("NewBuildEnv", (AndroidYowsupEnv,), ov)
            key = base64.b64decode(ov.get("_KEY", AndroidYowsupEnv._KEY))
            sig = base64.b64decode(ov.get("_SIGNATURE", AndroidYowsupEnv._SIGNATURE))
            cls = base64.b64decode(ov.get("_MD5_CLASSES", AndroidYowsupEnv._MD5_CLASSES))
            chk.hit("token:own-environment")
            try:
                tok = Sub().getToken(ph)
            except Exception as e:
                return [oracle("C20:token-raises", "getToken(%r) in an environment subclass raises %s: %s" % (ph, type(e).__name__, e))]
            ref = base64.b64encode(stdhmac.new(key[:64], sig + cls + ph.encode(), hashlib.sha1).digest())
            if tok != ref:
                return [oracle("C20:token-ignores-the-environments-constants", "phone %r, an environment subclass overriding %s: token %s, the independent HMAC-SHA1 over THAT "
                               "environment's constants is %s%s" % (ph, sorted(ov), tok, ref, " (it is the stock environment's token)" if tok == chk.env.getToken(ph) else ""))]
            return []
        try:
            tok = chk.env.getToken(ph)
        except Exception as e:
            return [oracle("C20:token-raises", "getToken(%r) raises %s: %s" % (ph, type(e).__name__, e))]
        data = chk.sig + chk.cls + ph.encode()
        ref = base64.b64encode(stdhmac.new(chk.key[:64], data, hashlib.sha1).digest())
        model = base64.b64encode(hashlib.sha1(chk.opad + hashlib.sha1(chk.ipad + data).digest()).digest())
        chk.hit("token:len=%d" % min(len(ph), 21))
        if tok != model:
            fails.append(corr("token", "phone %r: impl=%s model(pads+layout)=%s" % (ph, tok, model)))
        if tok != ref:
            fails.append(oracle("C20:token-not-hmac-sha1", "phone %r: token %s, independent HMAC-SHA1 %s" % (ph, tok, ref)))
        elif len(ph) in (1, 12) and ph.isdigit():
            o = base64.b64encode(refcrypto.hmac_sha1_openssl(chk.key[:64], data))
            if o != tok:
                fails.append(oracle("C20:token-not-hmac-sha1", "phone %r: token %s, openssl HMAC-SHA1 %s" % (ph, tok, o)))
        return fails
    if stream == "value":
        val = _value(case)
        try:
            enc = chk.WAR.urlencode(val)
        except Exception as e:
            return [oracle("C20:urlencode-raises", "urlencode(%r) raises %s: %s" % (val, type(e).__name__, e))]
        model = _model_enc(chk, case)
        chk.hit("value:" + case["kind"])
        if enc != model:
            fails.append(corr("value", "urlencode(%r): impl=%r model=%r" % (val, enc, model)))
        want = _as_bytes(val)
        back = urllib.parse.unquote_to_bytes(enc)
        bad = None
        if back != want:
            bad = "standard decoding gives %r" % back
        elif isinstance(val, str) and urllib.parse.unquote(enc) != val:
            bad = "unquote gives %r" % urllib.parse.unquote(enc)
        else:
            i = 0
            while i < len(enc):
                ch = enc[i]
                if ch == "%":
                    if enc[i + 1:i + 3] != enc[i + 1:i + 3].lower():
                        bad = "upper-case escape %s" % enc[i:i + 3]
                        break
                    i += 3
                elif ch.isascii() and (ch.isalnum() or ch == "."):
                    i += 1
                else:
                    bad = "character %r left literal" % ch
                    break
        if bad:
            fails.append(oracle("C20:urlencode-wrong", "urlencode(%r) = %r: %s" % (val, enc, bad)))
        return fails
    if stream == "request":
        return _run_request(chk, case)
    params = [(k, _value(v)) for k, v in case["params"]]
    if stream == "params":
        enc = chk.WAR.urlencodeParams(params)
        toks = []
        for k, v in case["params"]:
            toks += [k.encode().hex(), (_as_bytes(_value(v)).hex() or "-")]
        out = chk.driver.ask("reg params " + " ".join(toks))
        model = "" if out == "-" else bytes.fromhex(out).decode("latin-1")
        chk.hit("params:n=%d" % len(params))
        if enc != model:
            fails.append(corr("params", "urlencodeParams(%r): impl=%r model=%r" % (params, enc[:200], model[:200])))
        got = [(k.encode("latin-1"), urllib.parse.unquote_to_bytes(v)) for k, v in
               (item.split("=", 1) for item in enc.split("&"))]
        want = [(k.encode(), _as_bytes(v)) for k, v in params]
        if got != want:
            fails.append(oracle("C20:params-wrong", "urlencodeParams(%r) = %r parses to %r" % (params, enc[:200], got)))
        return fails
    if stream == "blob":
        from cryptography.hazmat.primitives.asymmetric.x25519 import X25519PrivateKey
        from cryptography.hazmat.primitives.ciphers.aead import AESGCM
        from cryptography.hazmat.primitives import serialization
        from axolotl.ecc.djbec import DjbECPublicKey
        priv = X25519PrivateKey.generate()
        pub_raw = priv.public_key().public_bytes(serialization.Encoding.Raw, serialization.PublicFormat.Raw)
        req = chk.WAR.__new__(chk.WAR)
        outs = []
        import yowsup.common.http.warequest as WMOD
        forced = chk.keypool.get(tuple(case["ephemeral"])) if case.get("ephemeral") else None
        for call in range(2):
            real_curve = WMOD.Curve
            if forced is not None and call == 0:
                class _Curve(object):
                    def __getattr__(self, n):
                        return getattr(real_curve, n)

                    def generateKeyPair(self):
                        return forced
                WMOD.Curve = _Curve()
                chk.hit("blob:ephemeral-%s-byte" % case["ephemeral"][0])
            try:
                res = req.encryptParams(params, DjbECPublicKey(pub_raw))
            finally:
                WMOD.Curve = real_curve
            if len(res) != 1 or res[0][0] != "ENC":
                return [oracle("C20:blob-shape", "encryptParams returned %r" % (res,))]
            outs.append(base64.b64decode(res[0][1]))
        chk.hit("blob")
        from cryptography.hazmat.primitives.asymmetric.x25519 import X25519PublicKey
        blob = outs[0]
        eph, ct = blob[:32], blob[32:]
        if forced is not None and eph != bytes(forced.publicKey.serialize()[1:]):
            return [oracle("C20:blob-key-field", "ephemeral public key %s: the blob's first 32 bytes are %s (blob of %d bytes)"
                           % (bytes(forced.publicKey.serialize()[1:]).hex(), eph.hex(), len(blob)))]
        try:
            shared = priv.exchange(X25519PublicKey.from_public_bytes(eph))
            plain = AESGCM(shared).decrypt(b"\x00\x00\x00\x00" + struct.pack(">Q", 0), ct, b"")
        except Exception as e:
            return [oracle("C20:blob-does-not-open", "blob does not decrypt with the matching private key: %s" % type(e).__name__)]
        want = chk.WAR.urlencodeParams(params).encode()
        if plain != want:
            fails.append(oracle("C20:blob-content", "blob opens to %r, encoded parameter string is %r" % (plain[:120], want[:120])))
        if outs[0][:32] == outs[1][:32]:
            fails.append(oracle("C20:ephemeral-key-reused", "two calls used the same ephemeral public key"))
        return fails
    if stream == "request":
        return _run_request(chk, case)
    raise ValueError(stream)


EXTRA_PARAMS = [("xa", " leading blank"), ("xb", "trailing tab\t"), ("xc", u"\u00a0nbsp both ends\u00a0"), ("xd", " "), ("xe", "\nline\n"), ("xf", b" bytes with blanks "), ("xg", 0),
                ("xh", u"\u2003em space"), ("xi", "")]


def _run_request(chk, case):
    """the whole request as the registration classes build and send it (send(preview=True): everything but the socket): the server key is
    replaced by one whose private half the check holds, the blob handed to sendRequest is opened and parsed with standard decoding"""
    import uuid
    from cryptography.hazmat.primitives.asymmetric.x25519 import X25519PrivateKey, X25519PublicKey
    from cryptography.hazmat.primitives.ciphers.aead import AESGCM
    from cryptography.hazmat.primitives import serialization
    from axolotl.ecc.djbec import DjbECPublicKey
    from consonance.structs.keypair import KeyPair
    from yowsup.config.v1.config import Config
    from yowsup.profile.profile import YowProfile
    from yowsup.registration.coderequest import WACodeRequest
    from yowsup.registration.existsrequest import WAExistsRequest
    from yowsup.registration.regrequest import WARegRequest
    cc, nat, kind = case["cc"], case["national"], case["kind"]
    fails = []
    priv = X25519PrivateKey.generate()
    pub_raw = priv.public_key().public_bytes(serialization.Encoding.Raw, serialization.PublicFormat.Raw)
    cfg = Config(phone=cc + nat, cc=cc, mcc="262", mnc="1", sim_mcc="0", sim_mnc="0", client_static_keypair=KeyPair.generate(),
                 id=None if kind == "code-noid" else bytes(range(20)))
    prof = cfg          # as yowsup-cli does: the request classes read mcc / mnc / id off the configuration object
    sent = []
    real_send, real_key = chk.WAR.__dict__["sendRequest"], chk.WAR.ENC_PUBKEY

    def fake(cls, host, port, path, headers, params, reqType="GET", preview=False):
        sent.append((host, path, list(params), cls.urlencodeParams(params)))
        return None
    chk.WAR.sendRequest = classmethod(fake)
    chk.WAR.ENC_PUBKEY = DjbECPublicKey(pub_raw)
    reqs = []
    real_init = chk.WAR.__init__

    def init(self, *a, **kw):
        self._verif_added = []
        real_init(self, *a, **kw)
        reqs.append(self)
    chk.WAR.__init__ = init
    # the order in which the parameters were added, kept independently of the request's own list (which a send must not reorder either)
    real_add, real_remove, real_clear = chk.WAR.addParam, chk.WAR.removeParam, chk.WAR.clearParams

    def add(self, name, value):
        self._verif_added.append((name, value))
        return real_add(self, name, value)

    def remove(self, name):
        self._verif_added[:] = [kv for kv in self._verif_added if kv[0] != name]
        return real_remove(self, name)

    def clear(self):
        del self._verif_added[:]
        return real_clear(self)
    chk.WAR.addParam, chk.WAR.removeParam, chk.WAR.clearParams = add, remove, clear
    active_key = chk.key
    if case.get("envswitch"):
        # the application switches environments (a newer build's constants in a subclass, then back to the stock one, or the other way round):
        # a request carries the token of the environment that is current when it is built
        from yowsup.env.env import YowsupEnv
        from yowsup.env.env_android import AndroidYowsupEnv
        if not hasattr(chk, "beta_key"):
            chk.beta_key = bytes((7 * i + 3) % 256 for i in range(80))
            type("VerifBetaAndroidYowsupEnv", (AndroidYowsupEnv,), {"_KEY": base64.b64encode(chk.beta_key).decode()})
        order = ["verifbetaandroid", "android"] if case["envswitch"] == 1 else ["android", "verifbetaandroid"]
        for name in order:
            YowsupEnv.setEnv(name)
        active_key = chk.key if order[-1] == "android" else chk.beta_key
        chk.hit("request:env-switch:%s" % order[-1])
    try:
        if kind in ("code", "code-noid"):
            WACodeRequest("sms", prof).send(preview=True)
        elif kind == "exists":
            q = WAExistsRequest(prof)
            # parameters the caller adds itself: what goes in through addParam is what the server must read (edge blanks, tabs, no-break spaces included)
            for xn, xv in EXTRA_PARAMS:
                q.addParam(xn, xv)
            q.send(preview=True)
            q.send(preview=True)          # the same request object sent again (a retry): a fresh ephemeral key, the same parameters
        else:
            q = WARegRequest(prof, "123456")
            q.send(preview=True)
            q.send(preview=True)
    except Exception as e:
        return [oracle("C20:request-raises", "cc %s national %s, %s request raises %s: %s" % (cc, nat, kind, type(e).__name__, e))]
    finally:
        chk.WAR.sendRequest, chk.WAR.ENC_PUBKEY, chk.WAR.__init__ = real_send, real_key, real_init
        chk.WAR.addParam, chk.WAR.removeParam, chk.WAR.clearParams = real_add, real_remove, real_clear
        if case.get("envswitch"):
            from yowsup.env.env import YowsupEnv
            YowsupEnv.setEnv("android")
    chk.hit("request:%s:sent=%d" % (kind, len(sent)))
    twice = kind in ("exists", "reg")
    if len(sent) != len(reqs) * (2 if twice else 1) or not sent:
        return [oracle("C20:request-not-sent", "cc %s national %s, %s: %d request objects, %d requests handed to the transport" % (cc, nat, kind, len(reqs), len(sent)))]
    data = chk.sig + chk.cls + nat.encode()
    token = base64.b64encode(stdhmac.new(active_key[:64], data, hashlib.sha1).digest())
    by_path = dict(("/" + q.url.split("/", 1)[1], q) for q in reqs)
    if sorted(by_path) != sorted(set(p_ for _h, p_, _p, _e in sent)):
        return [oracle("C20:request-not-sent", "cc %s national %s, %s: requests built for %s, the transport saw %s" % (cc, nat, kind, sorted(by_path), [p_ for _h, p_, _p, _e in sent]))]
    for host, path, params, _enc in sent:
        req = by_path[path]
        out = chk.driver.ask("reg national %s %s" % (cc.encode().hex(), (cc + nat).encode().hex()))
        model = "" if out == "-" else bytes.fromhex(out).decode("latin-1")
        if req._p_in != model:
            fails.append(corr("request", "cc %s phone %s: the request's national number is %r, the model's %r" % (cc, cc + nat, req._p_in, model)))
        what = "cc %s national %s, %s request to %s" % (cc, nat, kind, path)
        if len(params) != 1 or params[0][0] != "ENC":
            fails.append(oracle("C20:request-not-encrypted", "%s: parameters handed to the transport are %r" % (what, [k for k, _ in params])))
            continue
        blob = base64.b64decode(params[0][1])
        try:
            shared = priv.exchange(X25519PublicKey.from_public_bytes(blob[:32]))
            plain = AESGCM(shared).decrypt(b"\x00\x00\x00\x00" + struct.pack(">Q", 0), blob[32:], b"")
        except Exception as e:
            fails.append(oracle("C20:blob-does-not-open", "%s: blob does not decrypt with the private key matching the server key used: %s" % (what, type(e).__name__)))
            continue
        got = [(k, urllib.parse.unquote_to_bytes(v)) for k, v in (item.split(b"=", 1) for item in plain.split(b"&"))]
        want = [(k.encode(), _as_bytes(v)) for k, v in req._verif_added]
        if [(k.encode(), _as_bytes(v)) for k, v in req.params] != want:
            fails.append(oracle("C20:request-parameters-rearranged", "%s: after the send the request's own parameter list is %s; they were added as %s"
                                % (what, [k for k, _v in req.params][:12], [k for k, _v in req._verif_added][:12])))
        if got != want:
            i = next((j for j in range(min(len(got), len(want))) if got[j] != want[j]), min(len(got), len(want)))
            fails.append(oracle("C20:blob-content", "%s: the blob's parameter #%d is %r, the request's is %r (%d / %d parameters)"
                                % (what, i, got[i] if i < len(got) else None, want[i] if i < len(want) else None, len(got), len(want))))
        d = {}
        for k, v in got:
            d.setdefault(k, []).append(v)
        if kind == "exists":
            for xn, xv in EXTRA_PARAMS:
                if d.get(xn.encode()) != [_as_bytes(xv)] * 1:
                    fails.append(oracle("C20:added-parameter-altered", "%s: parameter %s was added with the value %r, the server reads %r" % (what, xn, xv, d.get(xn.encode()))))
                    break
        if d.get(b"cc") != [cc.encode()] or d.get(b"in") != [nat.encode()]:
            fails.append(oracle("C20:request-number", "%s: the request carries cc=%r in=%r" % (what, d.get(b"cc"), d.get(b"in"))))
        if path.endswith("/code") or path.endswith("/exist"):
            if d.get(b"token") != [token]:
                fails.append(oracle("C20:request-token", "%s: the request's token is %r, the independent keyed SHA-1 of the national number is %r"
                                    % (what, d.get(b"token"), token)))
    if twice and not fails:
        ephs = [base64.b64decode(p_[0][1])[:32] for _h, _pa, p_, _e in sent]
        if len(set(ephs)) != len(ephs):
            fails.append(oracle("C20:ephemeral-key-reused", "cc %s national %s, %s request sent twice: both blobs carry the same ephemeral public key" % (cc, nat, kind)))
    return fails


def shrink(stream, case):
    if stream == "value" and case["kind"] == "str":
        for i in range(len(case["cps"])):
            yield dict(case, cps=case["cps"][:i] + case["cps"][i + 1:])
    if stream in ("params", "blob"):
        ps = case["params"]
        for i in range(len(ps)):
            if len(ps) > 1:
                yield dict(case, params=ps[:i] + ps[i + 1:])
