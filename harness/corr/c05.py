"""C05  Frame segmentation — correspondence of Model/Segments.lean with
yowsup/layers/noise/layer_noise_segments.py and the property oracle on the real layer."""
import itertools

import boot  # noqa: F401
from core import corr, oracle, hexs
from lib.trees import to_line, to_node, from_node, to_json, from_json
from lib.probes import sandwich, harvest_ints, harvest_strs
from yowsup.layers.noise.layer_noise_segments import YowNoiseSegmentsLayer

PID = "C05"
GEN = ["tokendict", "segsrc"]
LEAN_MODULES = ["YowsupVerif.Props.C05", "YowsupVerif.Props.C05Src", "YowsupVerif.Props.Pipeline"]
RULE = ("stream 'chunking': random sequences of non-empty frames (1 B..>64 KiB, sizes biased to 1,2,3,4,255,256,65535,65536 "
        "and to integer literals harvested from the current source ±1) cut at random points incl. inside the 3-byte header, "
        "optionally cut short in the middle of a frame; stream 'exhaustive' (thorough): every composition of a stream of at most "
        "N bytes into frames x every partition into chunks; stream 'send': payload sizes around every boundary incl. 2^24-1, 2^24, 2^24+1; "
        "stream 'closing': a frame whose handling closes the connection re-entrantly (DISCONNECTED reaches the layer while it is inside receive), more bytes of the dead "
        "connection behind it, then a new connection: per chunk against the model's recvC; the new connection's frames are handed up exactly. "
        "stream 'reconnect': a connection lost k bytes into a frame (k anywhere from 1 to the frame's end - 1), DISCONNECTED delivered to the layer, then the frames of a new "
        "connection, both streams cut at random: everything complete before the loss and every frame of the new connection is delivered, nothing else; "
        "stream 'pipeline': 1-5 random stanza trees through the real coder layer and the real segment layer's send side, the written bytes cut at random points, "
        "then the real segment layer's receive side and the real coder layer: the trees handed upward must be the trees sent (Props/Pipeline.lean), and every "
        "delivered frame is decoded by the Lean coder model as well; "
        "stream 'zero': headers announcing zero-length frames (model validation only). Non-trivial/distinct = distinct (frame sizes, cut points, tail) tuple.")
RULE += (' Payloads made of length-prefixed records (a piece of a frame that is itself a well-formed frame), read in pieces ending at the inner boundaries.')
RULE += (' Streams of 1100-5000 small frames in one read.')
RULE += (" stream 'switch': raw chunks while framing is off, then framing on and a framed stream on the same connection.")
RULE += (" stream 'phases': the switch moves 2-6 times within one connection (incl. the login order of an account with routing information): payloads written and chunks received in every stretch, against the model per stretch (C05_any_sequence_of_switches).")
ASSUMPTIONS = ["CPython bytearray slicing/extend semantics", "struct.pack/unpack '>I'",
               "the lower layer delivers chunks sequentially (one network thread)"]
EXHAUSTIVE = {"thorough": False}

SRC = ["yowsup/layers/noise/layer_noise_segments.py"]


def be24(n):
    return bytes([(n >> 16) & 255, (n >> 8) & 255, n & 255])


def setup(chk):
    from lib.trees import Gen
    chk.lits = sorted(v for v in harvest_ints(SRC) if 0 <= v <= 1 << 26)
    chk.gen = Gen(chk.rng, sorted(harvest_ints(["yowsup/layers/coder/encoder.py", "yowsup/layers/coder/decoder.py"])),
                  sorted(harvest_strs(["yowsup/layers/coder/encoder.py", "yowsup/layers/coder/decoder.py"])))


def _sizes(chk):
    r = chk.rng
    base = [1, 1, 1, 2, 3, 4, 5, 7, 16, 255, 256, 257]
    lit = [v + d for v in chk.lits for d in (-1, 0, 1) if 0 < v + d <= 4000]
    big = [65535, 65536, 65537, 70001]
    k = r.random()
    if k < 0.55:
        return r.choice(base)
    if k < 0.75 and lit:
        return r.choice(lit)
    if k < 0.77:
        return r.choice(big)
    return r.randint(1, 40)


def cases(chk):
    r = chk.rng
    # corpus / boundary cases first
    yield "chunking", {"frames": ["07", "0102030405"], "cuts": [2, 5, 9], "tail": 0}
    yield "chunking", {"frames": ["aa"], "cuts": [1, 2, 3], "tail": 0}
    yield "chunking", {"frames": ["aa", "bb", "cc"], "cuts": [], "tail": 0}
    yield "chunking", {"frames": ["00" * 65536, "01"], "cuts": [3, 40000], "tail": 0}
    # frame sizes around every power of two the 3-byte header can express (a header read with too few bits shows up only there)
    for k in ((16, 17, 18, 19, 20) if chk.quick() else (16, 17, 18, 19, 20, 21, 22, 23)):
        for n in ((1 << k) - 1, 1 << k, (1 << k) + 1) if k >= 20 or not chk.quick() else (1 << k,):
            yield "chunking", {"frames": ["03", ("%02x" % (k * 7 % 251 + 1)) * n, "0405", "06"], "cuts": [2, 5, n // 2, n + 7], "tail": 0}
    if not chk.quick():
        yield "chunking", {"frames": ["aa" * ((1 << 24) - 1), "bb"], "cuts": [1, 1 << 23], "tail": 0}
    # very many small frames in ONE read (a server flushing a backlog): the number of frames a single call hands up has no bound
    for n, sz in ((1100, 1), (2500, 3), (5000, 2)) if chk.quick() else ((1100, 1), (2500, 3), (5000, 2), (40000, 2)):
        yield "chunking", {"frames": [("%02x" % (i % 251 + 1)) * sz for i in range(n)], "cuts": [], "tail": 0}
        yield "chunking", {"frames": [("%02x" % (i % 251 + 1)) * sz for i in range(n)], "cuts": [2, (3 + sz) * (n // 2) + 1], "tail": 0}
    yield "zero", {"chunks": ["000000", "000000", "000001", "09"]}
    yield "zero", {"chunks": ["00000000000107"]}
    yield "disabled", {"chunks": ["000001", "07", "-"]}
    EVS = ["org.openwhatsapp.yowsup.event.network.connect", "org.openwhatsapp.yowsup.event.auth.authed", "org.openwhatsapp.yowsup.event.network.connected", "com.example.app.event"]
    for i in range(chk.scale(40, 800)):
        frames = [bytes(r.randrange(256) for _ in range(r.choice([1, 2, 5, 40, 300]))).hex() for _i in range(r.randint(2, 4))]
        total = sum(3 + len(f) // 2 for f in frames)
        cuts = sorted(set(r.randint(1, total - 1) for _ in range(r.choice([1, 2, 3, 5]))))
        yield "midevents", {"frames": frames, "cuts": cuts, "events": [[r.randrange(len(cuts) + 1), EVS[(i + j) % len(EVS)]] for j in range(r.choice([1, 1, 2]))]}
    for i in range(chk.scale(30, 600)):
        raw = [bytes(r.randrange(256) for _ in range(r.choice([1, 1, 2, 3, 4, 33]))).hex() for _i in range(r.choice([1, 1, 2, 3]))]
        frames = [bytes(r.randrange(256) for _ in range(r.choice([1, 2, 5, 40, 300]))).hex() for _i in range(r.randint(1, 4))]
        total = sum(3 + len(f) // 2 for f in frames)
        yield "switch", {"raw": raw if i % 7 else [], "frames": frames, "cuts": sorted(set(r.randint(1, max(1, total - 1)) for _ in range(r.choice([0, 1, 2, 5]))))}
    # the switch moves several times within one connection — the login of an account with routing information writes a raw header, the routing
    # information framed, the raw prologue, and then frames; what arrives meanwhile follows the switch as well
    def _phase(on):
        if on:
            frames = [bytes(r.randrange(256) for _ in range(r.choice([1, 2, 5, 40, 300]))).hex() for _i in range(r.randint(1, 3))]
            total = sum(3 + len(f) // 2 for f in frames)
            return {"on": 1, "out": [r.choice([1, 4, 30, 300]) for _i in range(r.choice([0, 1, 2]))], "frames": frames,
                    "cuts": sorted(set(r.randint(1, max(1, total - 1)) for _ in range(r.choice([0, 1, 2, 4]))))}
        return {"on": 0, "out": [r.choice([1, 4, 30]) for _i in range(r.choice([0, 1, 2]))],
                "raw": [bytes(r.randrange(256) for _ in range(r.choice([1, 3, 4, 5, 33]))).hex() for _i in range(r.choice([0, 1, 2]))]}
    yield "phases", {"phases": [{"on": 0, "out": [4], "raw": []}, {"on": 1, "out": [40], "frames": [], "cuts": []}, {"on": 0, "out": [4], "raw": []},
                                {"on": 1, "out": [30, 300], "frames": ["0709", "aa" * 40], "cuts": [2, 9]}]}
    yield "phases", {"phases": [{"on": 1, "out": [], "frames": ["01"], "cuts": []}, {"on": 0, "out": [], "raw": ["0000015741"]}, {"on": 1, "out": [], "frames": ["02"], "cuts": [1]}]}
    for i in range(chk.scale(40, 800)):
        first = r.choice([0, 1])
        yield "phases", {"phases": [_phase((first + j) % 2) for j in range(r.randint(2, 6))]}
    for n in sorted(set([0, 1, 2, 255, 256, 65535, 65536, (1 << 24) - 1, 1 << 24, (1 << 24) + 1] + [(1 << k) + d for k in (12, 20, 23) for d in (-1, 0, 1, 70000)]
                        + [v + d for v in chk.lits for d in (-1, 0, 1) if v + d >= 0])):
        yield "send", {"len": n, "enabled": 1}
    yield "send", {"len": 5, "enabled": 0}
    yield "send", {"len": 1 << 24, "enabled": 0}
    n = chk.scale(1500, 40000)
    for _ in range(n):
        if not chk.time_left():
            break
        nf = r.choice([1, 1, 2, 2, 3, 4, 6])
        frames = []
        for _i in range(nf):
            sz = _sizes(chk)
            if sz <= 64:
                frames.append(bytes(r.randrange(256) for _ in range(sz)).hex())
            else:
                b = r.randrange(256)
                frames.append((bytes([b]) * sz).hex())
        total = sum(3 + len(f) // 2 for f in frames)
        tail = 0
        if r.random() < 0.3:
            last = 3 + len(frames[-1]) // 2
            tail = r.randint(1, last - 1)       # bytes of the last frame withheld
        avail = total - tail
        ncuts = r.choice([0, 1, 2, 3, 5, 8, avail - 1 if avail < 40 else 8])
        cuts = sorted(set(r.randint(1, max(1, avail - 1)) for _ in range(ncuts))) if avail > 1 else []
        # bias cuts into headers
        if r.random() < 0.5:
            pos = 0
            hc = []
            for f in frames:
                hc.append(pos + r.choice([1, 2, 3]))
                pos += 3 + len(f) // 2
            cuts = sorted(set(cuts + [c for c in hc if 0 < c < avail]))
        yield "chunking", {"frames": frames, "cuts": cuts, "tail": tail}
    # payloads that look like the framing itself (a frame carrying length-prefixed records, as relayed or tunnelled traffic does), read in
    # pieces that end exactly where the inner records end: a piece of a frame is then, taken alone, a well-formed frame
    for _ in range(chk.scale(250, 6000)):
        frames, cuts, pos = [], [], 0
        for _i in range(r.choice([1, 2, 2, 3])):
            body, marks = bytes(r.randrange(256) for _ in range(r.choice([0, 0, 1, 2, 3, 5]))), []
            for _j in range(r.choice([1, 1, 2, 3])):
                marks.append(len(body))
                rec = bytes(r.randrange(256) for _ in range(r.choice([0, 1, 1, 2, 7, 40, 300])))
                body += be24(len(rec)) + rec
                marks.append(len(body))
            body += bytes(r.randrange(256) for _ in range(r.choice([0, 0, 0, 1, 4])))
            cand = [pos + 3 + m for m in marks] + [pos + 3, pos + 3 + len(body)]
            cuts.extend(c for c in cand if r.random() < 0.7)
            frames.append(body.hex())
            pos += 3 + len(body)
        yield "chunking", {"frames": frames, "cuts": sorted(set(c for c in cuts if 0 < c < pos)), "tail": 0}
    # a connection lost in the middle of a frame (anywhere: inside the header, right after it, deep in the payload), then a new connection
    # on the same layer whose first frame has a different length
    for _ in range(chk.scale(150, 4000)):
        f1 = [bytes(r.randrange(256) for _ in range(_sizes(chk) % 300 + 1)).hex() for _i in range(r.randint(1, 3))]
        last = 3 + len(f1[-1]) // 2
        f2 = [bytes(r.randrange(256) for _ in range(_sizes(chk) % 300 + 1)).hex() for _i in range(r.randint(1, 3))]
        yield "reconnect", {"frames1": f1, "keep": r.randint(1, last - 1), "frames2": f2, "ncuts": r.choice([0, 1, 2, 4]), "cutseed": r.randrange(1 << 30)}
    # a frame whose handling closes the connection re-entrantly (a stream error: the layers above ask for the disconnect while the frame is
    # being handed up, the network layer closes at once), with more bytes of the dead connection behind it in the same chunk; then a new connection
    for i in range(chk.scale(60, 1500)):
        n1 = r.randint(1, 5)
        f1 = [bytes([i % 250 + 1, j]) + bytes(r.randrange(256) for _ in range(r.randint(0, 40))) for j in range(n1)]
        f2 = [bytes([0xEE, j]) + bytes(r.randrange(256) for _ in range(r.randint(0, 40))) for j in range(r.randint(1, 4))]
        yield "closing", {"frames1": [f.hex() for f in f1], "closing": r.randrange(n1), "tail": r.choice([0, 0, 1, 2, 5]), "frames2": [f.hex() for f in f2],
                          "ncuts": r.choice([0, 0, 1, 2, 4]), "cutseed": r.randrange(1 << 30)}
    for _ in range(chk.scale(120, 3000)):
        trees_ = [chk.gen.tree() for _i in range(r.randint(1, 5))]
        yield "pipeline", {"trees": [to_json(t) for t in trees_], "cutseed": r.randrange(1 << 30), "ncuts": r.choice([0, 1, 2, 3, 5, 9, 17])}
    if not chk.quick():
        N = 11
        payload = itertools.count(1)
        for comp in _compositions(N):
            frames = [bytes((next(payload) % 251) + 1 for _ in range(sz)).hex() for sz in comp]
            total = sum(3 + s for s in comp)
            for mask in range(1 << (total - 1)):
                cuts = [i + 1 for i in range(total - 1) if mask >> i & 1]
                yield "exhaustive", {"frames": frames, "cuts": cuts, "tail": 0}


def _compositions(N):
    """all lists of frame sizes (each >=1) with sum(3+size) <= N"""
    res = []

    def rec(cur, used):
        if cur:
            res.append(list(cur))
        for s in range(1, N - used - 3 + 1):
            cur.append(s)
            rec(cur, used + 3 + s)
            cur.pop()
    rec([], 0)
    return res


def nontrivial(stream, case):
    if stream in ("chunking", "exhaustive"):
        return (stream, tuple(len(f) // 2 for f in case["frames"]), tuple(case["cuts"]), case["tail"])
    return (stream, repr(case))


def _mk(enabled=True):
    layer = YowNoiseSegmentsLayer()
    stack, bottom, top = sandwich(layer, props={YowNoiseSegmentsLayer.PROP_ENABLED: enabled})
    return layer, stack, bottom, top


def _chunks(data, cuts):
    pts = [0] + list(cuts) + [len(data)]
    return [data[a:b] for a, b in zip(pts, pts[1:])]


def _feed(chk, layer, top, chunks, fails, tag):
    """feed chunks to real layer and model, compare step by step; returns all frames delivered by impl"""
    delivered = []
    for i, c in enumerate(chunks):
        before = len(top.received)
        try:
            layer.receive(bytes(c))
            got = [bytes(x) for x in top.received[before:]]
            buf = getattr(layer, "_read_buffer", None)
            impl = "up:%s;buf:%s" % (",".join(hexs(g) for g in got), hexs(buf) if buf is not None else "?")
        except Exception as e:
            got = []
            impl = "raise:%s" % type(e).__name__
        model = chk.driver.ask("seg recv %s" % hexs(c))
        if "buf:?" in impl:
            model = model.split(";")[0] + ";buf:?"
        if impl != model:
            fails.append(corr("%s:recv" % tag, "chunk #%d %s: impl=%s model=%s" % (i, hexs(c)[:40], impl[:200], model[:200])))
        delivered.extend(got)
    return delivered


def run_case(chk, stream, case):
    fails = []
    if stream in ("chunking", "exhaustive"):
        frames = [bytes.fromhex(f) for f in case["frames"]]
        data = b"".join(be24(len(f)) + f for f in frames)
        tail = case["tail"]
        data = data[:len(data) - tail] if tail else data
        cuts = [c for c in case["cuts"] if 0 < c < len(data)]
        layer, _stack, _bottom, top = _mk(True)
        chk.driver.ask("seg reset 1")
        delivered = _feed(chk, layer, top, _chunks(data, cuts), fails, stream)
        expect = frames[:-1] if tail else frames
        for f in frames:
            chk.hit("frame<4" if len(f) < 4 else "frame<256" if len(f) < 256 else "frame<64K" if len(f) < 65536 else "frame>=64K")
        chk.hit("cut-mid-frame" if tail else "whole-frames", "chunks=%s" % min(len(cuts) + 1, 9))
        pos = 0
        for f in frames:
            if any(pos < c < pos + 3 for c in cuts):
                chk.hit("cut-inside-header")
                break
            pos += 3 + len(f)
        if delivered != expect:
            fails.append(oracle("C05:recv-frames-differ",
                                "sent %d frames (sizes %s) cut at %s tail=%d: delivered sizes %s%s"
                                % (len(frames), [len(f) for f in frames][:8], cuts[:12], tail, [len(d) for d in delivered][:8],
                                   "" if [len(d) for d in delivered] != [len(e) for e in expect] else " (content differs)")))
    elif stream == "reconnect":
        import random
        from yowsup.layers import YowLayerEvent
        from yowsup.layers.network import YowNetworkLayer
        rr = random.Random(case["cutseed"])
        fr1 = [bytes.fromhex(f) for f in case["frames1"]]
        fr2 = [bytes.fromhex(f) for f in case["frames2"]]
        s1 = b"".join(be24(len(f)) + f for f in fr1)
        s1 = s1[:len(s1) - (3 + len(fr1[-1])) + case["keep"]]          # the last frame of the first connection arrives only in part
        s2 = b"".join(be24(len(f)) + f for f in fr2)
        layer, _stack, bottom, top = _mk(True)
        chk.driver.ask("seg reset 1")

        def cut(data):
            cuts = sorted(set(rr.randint(1, max(1, len(data) - 1)) for _ in range(case["ncuts"]))) if len(data) > 1 else []
            return _chunks(data, cuts)
        got = _feed(chk, layer, top, cut(s1), fails, "reconnect")
        bottom.emitEvent(YowLayerEvent(YowNetworkLayer.EVENT_STATE_DISCONNECTED, reason="lost"))
        chk.driver.ask("seg reset 1")           # the model of on_disconnected: the read buffer is dropped (C04_source_orchestration: segReset)
        got += _feed(chk, layer, top, cut(s2), fails, "reconnect")
        chk.hit("reconnect:kept>3" if case["keep"] > 3 else "reconnect:kept<=3")
        want = fr1[:-1] + fr2
        if got != want:
            fails.append(oracle("C05:frames-differ-after-reconnect", "first connection: frames of %s bytes, lost %d bytes into the last one; second connection: frames of %s bytes: delivered sizes %s"
                                % ([len(f) for f in fr1], case["keep"], [len(f) for f in fr2], [len(g) for g in got][:10])))
    elif stream == "closing":
        import random
        from yowsup.layers import YowLayerEvent
        from yowsup.layers.network import YowNetworkLayer
        rr = random.Random(case["cutseed"])
        fr1 = [bytes.fromhex(f) for f in case["frames1"]]
        fr2 = [bytes.fromhex(f) for f in case["frames2"]]
        k = case["closing"]
        s1 = b"".join(be24(len(f)) + f for f in fr1)
        if case["tail"]:
            s1 += (be24(50) + bytes(49))[:2 + case["tail"]]            # ... and the beginning of one more frame of the dead connection
        s2 = b"".join(be24(len(f)) + f for f in fr2)
        layer, _stack, bottom, top = _mk(True)
        chk.driver.ask("seg reset 1")
        closed = []
        real_receive = top.receive

        def receive(data):
            real_receive(data)
            if bytes(data) == fr1[k] and not closed:
                closed.append(1)
                # what the network layer does when the layers above ask for the disconnect from inside this call
                bottom.emitEvent(YowLayerEvent(YowNetworkLayer.EVENT_STATE_DISCONNECTED, reason="closed while a frame is handled"))
        top.receive = receive

        def cut(data):
            cuts = sorted(set(rr.randint(1, max(1, len(data) - 1)) for _ in range(case["ncuts"]))) if len(data) > 1 else []
            return _chunks(data, cuts)
        got1 = []
        for i, c in enumerate(cut(s1)):
            before = len(top.received)
            try:
                layer.receive(bytes(c))
                impl = "up:%s;buf:%s;closed:%s" % (",".join(hexs(bytes(g)) for g in top.received[before:]), hexs(getattr(layer, "_read_buffer", b"")), "true" if closed else "false")
            except Exception as e:
                impl = "raise:%s" % type(e).__name__
            got1.extend(bytes(x) for x in top.received[before:])
            model = chk.driver.ask("seg recvc %s %s" % (hexs(fr1[k]), hexs(c)))
            if impl != model:
                fails.append(corr("closing:recv", "chunk #%d %s of the closing connection: impl=%s model=%s" % (i, hexs(c)[:40], impl[:200], model[:200])))
            if closed:
                break               # the connection is closed: no further bytes arrive on it
        chk.hit("closing:closed=%d" % len(closed), "closing:behind=%d" % min(len(fr1) - 1 - k + (1 if case["tail"] else 0), 3))
        chk.driver.ask("seg reset 1")
        got2 = _feed(chk, layer, top, cut(s2), fails, "closing")
        if closed and not (got1[:k + 1] == fr1[:k + 1] and got1 == fr1[:len(got1)]):
            # (frames behind the closing one may or may not still come up — they were sent; what comes up must be the peer's frames, in order)
            fails.append(oracle("C05:frames-differ-at-close", "frames of %s bytes, handling #%d closes the connection: handed up %s" % ([len(f) for f in fr1], k, [len(g) for g in got1])))
        if got2 != fr2:
            fails.append(oracle("C05:frames-differ-after-reconnect", "first connection: frames of %s bytes (+%d bytes of a further one), closed while frame #%d was being handled; second "
                                "connection: frames of %s bytes: handed up %s" % ([len(f) for f in fr1], (2 + case["tail"]) if case["tail"] else 0, k,
                                                                               [len(f) for f in fr2], [g[:8].hex() + ".." for g in got2][:6])))
    elif stream == "pipeline":
        import random
        from yowsup.layers.coder import YowCoderLayer
        trees_ = [from_json(t) for t in case["trees"]]
        coder_s = YowCoderLayer()
        _st, cbottom, _ct = sandwich(coder_s)
        seg_s, _s2, sbottom, _t2 = _mk(True)
        sent = []
        for t in trees_:
            n0 = len(cbottom.sent)
            try:
                coder_s.send(to_node(t))
            except Exception:
                if coder_s.lock.locked():
                    coder_s.lock.release()
                continue                     # not encodable: C01's subject
            if len(cbottom.sent) != n0 + 1:
                continue
            seg_s.send(bytes(cbottom.sent[-1]))
            sent.append(t)
        data = b"".join(bytes(w) for w in sbottom.sent)
        rr = random.Random(case["cutseed"])
        cuts = sorted(set(rr.randint(1, max(1, len(data) - 1)) for _ in range(case["ncuts"]))) if len(data) > 1 else []
        seg_r, _s3, _b3, top_r = _mk(True)
        coder_r = YowCoderLayer()
        _s4, _b4, ctop = sandwich(coder_r)
        chk.driver.ask("seg reset 1")
        frames = _feed(chk, seg_r, top_r, _chunks(data, cuts), fails, "pipeline")
        got = []
        for f in frames:
            try:
                coder_r.receive(f)
            except Exception as e:
                got.append("raised %s" % type(e).__name__)
        lines = []
        for x in ctop.received:
            try:
                lines.append(to_line(from_node(x)))
            except Exception as e:
                lines.append("unreadable %s" % type(e).__name__)
        want = [to_line(t) for t in sent]
        chk.hit("pipeline:stanzas=%d" % len(sent), "pipeline:chunks=%d" % min(9, len(cuts) + 1))
        if lines != want or got:
            i = next((i for i, (a, b) in enumerate(zip(lines, want)) if a != b), min(len(lines), len(want)))
            fails.append(oracle("C05:pipeline-stanzas-differ", "%d stanzas sent through coder + segments, stream of %d bytes cut at %s: %d stanzas came up%s; first difference at #%d: sent %s got %s"
                                % (len(want), len(data), cuts[:10], len(lines), (" (" + ", ".join(got[:2]) + ")") if got else "", i,
                                   want[i][:120] if i < len(want) else "-", lines[i][:120] if i < len(lines) else "-")))
        for f, w in zip(frames, want):
            out = chk.driver.ask("coder dec %s" % hexs(f))
            if out != "ok " + w:
                fails.append(corr("pipeline:model-decode", "frame %s…: model decodes to %s, sent %s" % (hexs(f)[:60], out[:120], w[:120])))
                break
    elif stream == "zero" or stream == "disabled":
        en = stream == "zero"
        layer, _stack, _bottom, top = _mk(en)
        chk.driver.ask("seg reset %d" % (1 if en else 0))
        chunks = [bytes.fromhex(c) if c != "-" else b"" for c in case["chunks"]]
        _feed(chk, layer, top, chunks, fails, stream)
        chk.hit(stream)
    elif stream == "midevents":
        # events that do not end the connection travel through the stack while a frame is half received (a redundant connect request that the
        # network layer ignores because it is connected, the login's authed event, an application event): framing goes on as if nothing happened
        from yowsup.layers import YowLayerEvent
        frames = [bytes.fromhex(f) for f in case["frames"]]
        data = b"".join(be24(len(f)) + f for f in frames)
        cuts = [c for c in case["cuts"] if 0 < c < len(data)]
        layer, stack_, _bottom, top = _mk(True)
        chk.driver.ask("seg reset 1")
        chunks = _chunks(data, cuts)
        delivered = []
        for i, c in enumerate(chunks):
            delivered += _feed(chk, layer, top, [c], fails, "midevents")
            for at, name in case["events"]:
                if at == i:
                    chk.hit("midevents:" + name.rsplit(".", 1)[-1])
                    (stack_.broadcastEvent if name.endswith("connect") else stack_.emitEvent)(YowLayerEvent(name))
        if delivered != frames:
            fails.append(oracle("C05:recv-frames-differ", "%d frames (sizes %s) cut at %s, with events %s passing through the stack between chunks: delivered sizes %s"
                                % (len(frames), [len(f) for f in frames][:8], cuts[:10], case["events"], [len(d) for d in delivered][:8])))
    elif stream == "switch":
        # the way a login uses the layer: framing off while the raw preamble travels (whatever arrives then goes up as it is), then framing on
        # for the rest of the same connection: the frames that follow are delivered exactly, whatever was seen before the switch
        layer, stack_, _bottom, top = _mk(False)
        chk.driver.ask("seg reset 0")
        raw = [bytes.fromhex(c) for c in case["raw"]]
        _feed(chk, layer, top, raw, fails, "switch:raw")
        if [bytes(x) for x in top.received] != raw:
            fails.append(oracle("C05:raw-bytes-altered", "framing off: chunks %s were handed up as %s" % ([hexs(c) for c in raw], [hexs(bytes(x)) for x in top.received][:6])))
        stack_.setProp(YowNoiseSegmentsLayer.PROP_ENABLED, True)
        chk.driver.ask("seg reset 1")
        del top.received[:]
        frames = [bytes.fromhex(f) for f in case["frames"]]
        data = b"".join(be24(len(f)) + f for f in frames)
        cuts = [c for c in case["cuts"] if 0 < c < len(data)]
        delivered = _feed(chk, layer, top, _chunks(data, cuts), fails, "switch:framed")
        chk.hit("switch:raw-chunks=%d" % len(raw))
        if delivered != frames:
            fails.append(oracle("C05:recv-frames-differ", "%d raw chunk(s) received while framing was off, then framing switched on and %d frames (sizes %s) sent cut at %s: "
                                "delivered sizes %s" % (len(raw), len(frames), [len(f) for f in frames][:8], cuts[:10], [len(d) for d in delivered][:8])))
    elif stream == "phases":
        ph = case["phases"]
        layer, stack_, bottom, top = _mk(bool(ph[0]["on"]))
        for k, p in enumerate(ph):
            stack_.setProp(YowNoiseSegmentsLayer.PROP_ENABLED, bool(p["on"]))
            chk.driver.ask("seg reset %d" % p["on"])      # every on-stretch of the script ends on a frame boundary: the model's buffer is empty here (C05_any_sequence_of_switches)
            where = "stretch #%d of %d (framing %s; switch positions so far %s)" % (k + 1, len(ph), "on" if p["on"] else "off", [q["on"] for q in ph[:k + 1]])
            for n in p["out"]:
                payload = bytes(n)
                del bottom.sent[:]
                layer.send(payload)
                ws = [bytes(w) for w in bottom.sent]
                impl = "writes:" + ",".join(hexs(w) if len(w) <= 3 else str(len(w)) for w in ws)
                model = chk.driver.ask("seg sendlen %d" % n)
                if impl != model:
                    fails.append(corr("phases:send", "%s: payload of %d bytes: impl=%s model=%s" % (where, n, impl, model)))
                want = be24(n) + payload if p["on"] else payload
                if b"".join(ws) != want:
                    fails.append(oracle("C05:send-layout-after-switches", "%s: a payload of %d bytes was written as %s" % (where, n, hexs(b"".join(ws))[:60])))
            del top.received[:]
            if p["on"]:
                frames = [bytes.fromhex(f) for f in p["frames"]]
                data = b"".join(be24(len(f)) + f for f in frames)
                delivered = _feed(chk, layer, top, _chunks(data, [c for c in p["cuts"] if 0 < c < len(data)]) if data else [], fails, "phases:framed")
                if delivered != frames:
                    fails.append(oracle("C05:recv-frames-differ", "%s: %d frames (sizes %s) sent cut at %s: delivered sizes %s"
                                        % (where, len(frames), [len(f) for f in frames], p["cuts"], [len(d) for d in delivered][:8])))
            else:
                raw = [bytes.fromhex(c) for c in p["raw"]]
                delivered = _feed(chk, layer, top, raw, fails, "phases:raw")
                if delivered != raw:
                    fails.append(oracle("C05:raw-bytes-altered", "%s: chunks %s were handed up as %s" % (where, [hexs(c) for c in raw], [hexs(d) for d in delivered][:6])))
        chk.hit("phases:%d" % len(ph))
    elif stream == "send":
        n, en = case["len"], case["enabled"]
        layer, _stack, bottom, _top = _mk(bool(en))
        chk.driver.ask("seg reset %d" % en)
        payload = bytes(n)
        try:
            layer.send(payload)
            ws = [bytes(w) for w in bottom.sent]
            impl = "writes:" + ",".join(hexs(w) if len(w) <= 3 else str(len(w)) for w in ws)
            raised = False
        except ValueError:
            ws = [bytes(w) for w in bottom.sent]
            impl = "refused" if not ws else "refused-after-writes:%d" % len(ws)
            raised = True
        except Exception as e:
            ws = [bytes(w) for w in bottom.sent]
            impl = "raise:%s" % type(e).__name__
            raised = True
        model = chk.driver.ask("seg sendlen %d" % n)
        chk.hit("send>=2^24" if n >= 1 << 24 else "send<2^24", "send-enabled=%d" % en)
        if impl != model:
            fails.append(corr("send", "len=%d enabled=%d impl=%s model=%s" % (n, en, impl, model)))
        # oracle
        if n >= 1 << 24:
            if not raised or ws:
                fails.append(oracle("C05:send-large-not-refused", "payload of %d bytes: %s" % (n, impl)))
        elif en:
            if raised or ws != [be24(n), payload]:
                fails.append(oracle("C05:send-layout", "payload of %d bytes: %s" % (n, impl)))
    else:
        raise ValueError(stream)
    return fails


def shrink(stream, case):
    if stream not in ("chunking", "exhaustive"):
        return
    fr, cuts, tail = case["frames"], case["cuts"], case["tail"]
    for i in range(len(fr)):
        if len(fr) > 1:
            yield {"frames": fr[:i] + fr[i + 1:], "cuts": cuts, "tail": 0 if i == len(fr) - 1 else tail}
    for i in range(len(cuts)):
        yield {"frames": fr, "cuts": cuts[:i] + cuts[i + 1:], "tail": tail}
    for i, f in enumerate(fr):
        if len(f) > 2:
            h = max(2, (len(f) // 4) * 2)
            t = min(tail, 3 + h // 2 - 1) if i == len(fr) - 1 else tail
            yield {"frames": fr[:i] + [f[:h]] + fr[i + 1:], "cuts": cuts, "tail": t}
    if tail > 1:
        yield {"frames": fr, "cuts": cuts, "tail": 1}
