"""C13  Key store durable and atomic — Model/Store.lean (with skeletons regenerated from the source)
vs the real LiteAxolotlStore on real SQLite files: random API histories with close/reopen, and real
crash injection (child process killed at every traced statement boundary of every operation)."""
import os
import sqlite3
import tempfile

import boot  # noqa: F401
from core import corr, oracle
from lib import axo

PID = "C13"
GEN = ["storeops"]
LEAN_MODULES = ["YowsupVerif.Props.C13"]
RULE = ("stream 'history': random sequences (4..14 steps) of store API operations (store/replace/delete/load for sessions, identities, "
        "prekeys incl. sent flag, signed prekeys, sender keys) over small key/value pools so that replaces, double inserts and deletes of "
        "missing keys occur, with close+reopen steps; after every step the whole database content is compared with the Lean model (which "
        "executes the regenerated statement skeletons) and, after every reopen, every load*/contains*/isTrusted API answer is compared with "
        "an abstract map kept by the harness. stream 'crash': (prefix history, operation, kill point j): a forked child opens the real store "
        "and dies (os._exit) just before its j-th traced write statement, for EVERY j of EVERY operation incl. after the last; the parent "
        "reopens the file; per record the recovered value must be the previous or the new one, and the content must equal the model's "
        "crash(run(prefix j)). stream 'journal': the journal mode of the opened store's connection. stream 'otherkey': an operation on one key (second device, second sender, "
        "neighbouring id, other contact) never costs the record under another key. distinct = distinct (history, op, kill point).")
RULE += (" stream 'stmtfault': the j-th write statement of an operation fails (storage fault), then another operation, close: file vs model, the record stored before must still be there. stream 'localid': the account's own identity with edge bytes (0x05 / 0x00 / 0xff leading, trailing) read back before and after a reopen.")
RULE += (" stream 'factory': the store opened through AxolotlManagerFactory (two profiles of one account, two accounts, the same profile twice): a write through a manager lands in that profile's own file.")
RULE += (" stream 'newprocess': one record of every store kind stored through the API by one fresh interpreter and loaded through the API by two later ones (each with its own string-hash salt).")
ASSUMPTIONS = ["SQLite's atomic commit: a transaction that was not committed when the process died is rolled back on reopen; a committed one is durable "
               "(power loss / fsync lies below SQLite are not exhibited)", "python-axolotl record (de)serialisation is the identity on the stored blobs"]
EXHAUSTIVE = {"quick": False, "thorough": False}

TABLE_OF = {op: t for op, (_n, _k, t) in axo.OPS.items()}
KEYS = {0: [11, 12, 13], 1: [11, 12, 13], 2: [1, 2, 3, 4], 3: [1, 2, 3], 4: [0, 1, 10, 12]}


def setup(chk):
    chk.pool = axo.Pool(4)
    for k in KEYS[2]:          # create every record before any fork, so that parent and child agree on the blobs
        for v in range(4):
            chk.pool.prekey(k, v)
    for k in KEYS[3]:
        for v in range(4):
            chk.pool.signed(k, v)
    chk.tmp = tempfile.mkdtemp(prefix="c13-", dir=boot.scratch_dir())
    chk.n = 0


def rand_op(r):
    op = r.choice(list(axo.OPS))
    t = TABLE_OF[op]
    k = r.choice(KEYS[t])
    return [op, k, r.randrange(4), r.choice(KEYS[t])]


def cases(chk):
    r = chk.rng
    # SQLite's own all-or-nothing commit (trusted base for a death INSIDE a COMMIT) must be left switched on by the store
    yield "journal", {"after": "open"}
    yield "journal", {"after": "use"}
    # an operation on one key never costs the record stored under another key: a second device of the same contact, a second sender of the
    # same group, neighbouring ids — whether the store accepts the second operation or refuses it
    for what in ("session-other-device", "session-delete-other-device", "senderkey-other-sender", "senderkey-other-group", "prekey-neighbour", "signed-neighbour", "identity-other-contact"):
        for reopen in (0, 1):
            yield "otherkey", {"what": what, "reopen": reopen}
    # the account's own identity (created when the store is first opened) reads back as created, in the same process and after a reopen,
    # whatever its bytes look like: leading / trailing bytes equal to the key-type byte 0x05, zero bytes, 0xff
    shapes = ["05", "0505", "050505", "00", "0005", "ff", "05" * 32, "00" * 32, "random", "random", "end05", "end00"]
    for i, sh in enumerate(shapes):
        yield "localid", {"pub": sh, "priv": shapes[(i * 5 + 3) % len(shapes)], "regid": [1, 5, 0x05050505, 16380, 0x3fff, 0x7fffffff][i % 6], "seed": i}
    for i in range(chk.scale(20, 600)):
        yield "localid", {"pub": r.choice(shapes), "priv": r.choice(shapes), "regid": r.choice([1, 5, 1285, 16380, r.randrange(1, 1 << 31)]), "seed": r.randrange(1 << 30)}
    # an operation whose k-th statement FAILS (a storage fault: disk full, I/O error, locked file) is refused as a whole: neither then nor after
    # the next successful operation is the record that was stored under the key before gone or half replaced
    for op in range(10):
        for k in (1, 2, 3):
            for then in (4, 0, 9):
                if not chk.quick() or then == 4 or op in (0, 3):
                    yield "stmtfault", {"op": op, "k": k, "then": then}
    # "survive a restart": the records are stored by one process and read by ANOTHER (fresh interpreters: their own string-hash salt, nothing
    # in memory from the life before) — what is read is what was stored, for every store kind
    for i in range(chk.scale(2, 6)):
        yield "newprocess", {"round": i}
    # the way the library itself opens the store (AxolotlManagerFactory.get_manager(profile, account)): every profile has its own file, whatever
    # else the process has open — two profiles of one account, two accounts, the same profile twice
    for shape in ("same-account-two-profiles", "two-accounts", "same-profile-twice", "same-account-two-profiles-reversed"):
        for op in (0, 3, 4, 9):
            yield "factory", {"shape": shape, "op": op}
    # corpus: replace of an existing session / identity killed at every point
    for op in (0, 3, 9):
        for j in range(0, 8):
            yield "crash", {"pre": [[op, KEYS[TABLE_OF[op]][0], 0, 0]], "op": [op, KEYS[TABLE_OF[op]][0], 1, 0], "kill": j}
    # the same, dying by an exception that unwinds the stack (an interrupt): a finally block that commits would make the half-done update durable
    for op in sorted(axo.OPS):
        t = TABLE_OF[op]
        creator = {0: 0, 1: 0, 2: 0, 3: 3, 4: 4, 5: 4, 6: 4, 7: 7, 8: 7, 9: 9}[op]
        for j in range(0, 6):
            yield "crash", {"pre": [[creator, KEYS[t][0], 0, 0]], "op": [op, KEYS[t][0], 1, KEYS[t][2]], "kill": j, "mode": "raise"}
    # every operation x every kill point, on a database where the key exists and where it does not
    for op in sorted(axo.OPS):
        t = TABLE_OF[op]
        k = KEYS[t][1]
        creator = {0: 0, 1: 0, 2: 0, 3: 3, 4: 4, 5: 4, 6: 4, 7: 7, 8: 7, 9: 9}[op]
        for pre in ([], [[creator, k, 0, 0], [creator, KEYS[t][2], 2, 0]]):
            for j in range(0, 8):
                yield "crash", {"pre": pre, "op": [op, k, 1, KEYS[t][2]], "kill": j}
    for _ in range(chk.scale(60, 2500)):
        pre = [rand_op(r) for _ in range(r.randint(0, 5))]
        yield "crash", {"pre": pre, "op": rand_op(r), "kill": r.randint(0, 7)}
    for _ in range(chk.scale(150, 4000)):
        n = r.randint(4, 14)
        steps = []
        for _i in range(n):
            steps.append("reopen" if r.random() < 0.15 else rand_op(r))
        steps.append("reopen")
        yield "history", {"steps": steps}


def nontrivial(stream, case):
    return (stream, repr(case))


# ---------------------------------------------------------------------------------------------

def open_store(path):
    from yowsup.axolotl.store.sqlite.liteaxolotlstore import LiteAxolotlStore
    return LiteAxolotlStore(path)


def close_store(store):
    seen = set()
    for sub in vars(store).values():
        c = getattr(sub, "dbConn", None)
        if c is not None and id(c) not in seen:
            seen.add(id(c))
            c.close()


def spec_apply(m, op, k, v, k2):
    """abstract map (table,key) -> (val, flag): the specification of each API operation"""
    kind, t = axo.OPS[op][1], TABLE_OF[op]
    if kind == "replace":
        m[(t, k)] = (v, 0)
    elif kind == "insertNew":
        if (t, k) in m:
            return "raised"
        m[(t, k)] = (v, 0)
    elif kind == "remove":
        m.pop((t, k), None)
    elif kind == "retire":
        if (t, k) in m:
            m[(t, k)] = (axo.TOMB, m[(t, k)][1])
    elif kind == "markSent":
        for kk in (k, k2):
            if (t, kk) in m:
                m[(t, kk)] = (m[(t, kk)][0], 1)
    return "ok"


def dump_to_map(d):
    return {(t, k): (v, f) for t, rows in enumerate(d) for (k, v, f) in rows}


def real_op(store, pool, step):
    op, k, v, k2 = step
    try:
        axo.apply_op(store, pool, op, k, v, k2)
        return "ok"
    except sqlite3.IntegrityError:
        return "raised"


def check_loads(store, pool, m):
    """every load*/contains*/isTrusted answer against the abstract map"""
    bad = []
    for t, keys in KEYS.items():
        for k in keys:
            want = m.get((t, k))
            if t == 0:
                got = store.containsSession(k, 1)
                rec = store.loadSession(k, 1)
                ok = got == (want is not None) and (want is None or bytes(rec.serialize()) == bytes(pool.session[want[0]].serialize()))
            elif t == 1:
                ok = all(store.isTrustedIdentity(k, pool.identity[v]) == (want is None or want[0] == v) for v in range(pool.n))
            elif t == 2:
                if want is not None and want[0] == axo.TOMB:
                    want = None          # a retired row: the id stays taken, the key is gone for every reader
                got = store.containsPreKey(k)
                ok = got == (want is not None)
                if ok and want is not None:
                    ok = bytes(store.loadPreKey(k).serialize()) == bytes(pool.prekey(k, want[0]).serialize())
            elif t == 3:
                got = store.containsSignedPreKey(k)
                ok = got == (want is not None)
                if ok and want is not None:
                    ok = bytes(store.loadSignedPreKey(k).serialize()) == bytes(pool.signed(k, want[0]).serialize())
            else:
                rec = store.loadSenderKey(axo.sender_name(k))
                ok = rec.isEmpty() if want is None else (not rec.isEmpty() and bytes(rec.serialize()) == bytes(pool.sender[want[0]].serialize()))
            if not ok:
                bad.append("%s[%d] should be %s" % (axo.TABLES[t], k, want))
    unsent = sorted(r.getId() for r in store.preKeyStore.loadUnsentPendingPreKeys())
    want_unsent = sorted(k for (t, k), (v, f) in m.items() if t == 2 and not f and v != axo.TOMB)
    if unsent != want_unsent:
        bad.append("unsent prekeys %s should be %s" % (unsent, want_unsent))
    return bad


def _norm(step):
    """a retired prekey row carries the tombstone value, whatever the generator drew"""
    if isinstance(step, str):
        return step
    return [step[0], step[1], axo.TOMB, step[3]] if step[0] == 5 else list(step)


def run_journal(chk, case):
    import os
    import tempfile
    from yowsup.axolotl.store.sqlite.liteaxolotlstore import LiteAxolotlStore
    d = tempfile.mkdtemp(prefix="c13j-", dir=boot.scratch_dir())
    store = LiteAxolotlStore(os.path.join(d, "axolotl.db"))
    if case["after"] == "use":
        for op in (9, 0, 4):
            axo.apply_op(store, chk.pool, op, KEYS[TABLE_OF[op]][0], 0, 0)
    out = []
    seen = set()
    for ks in ("identityKeyStore", "sessionStore", "preKeyStore", "signedPreKeyStore", "senderKeyStore"):
        conn = getattr(getattr(store, ks, None), "dbConn", None)
        if conn is None or id(conn) in seen:
            continue
        seen.add(id(conn))
        mode = conn.execute("PRAGMA journal_mode").fetchone()[0]
        mode = (mode.decode("ascii", "replace") if isinstance(mode, bytes) else str(mode)).lower()
        chk.hit("journal_mode:" + mode)
        if mode not in ("delete", "truncate", "persist", "wal"):
            out.append(oracle("C13:atomic-commit-disabled", "the store's connection (%s, after %s) runs with PRAGMA journal_mode=%s: nothing on disk can undo a transaction whose pages have "
                              "started to reach the database file, so a process death inside a COMMIT (or after a cache spill) leaves old and new pages mixed — an existing "
                              "session or identity can be lost" % (ks, case["after"], mode)))
    return out


def run_otherkey(chk, case):
    import os
    import tempfile
    from axolotl.groups.senderkeyname import SenderKeyName
    from axolotl.axolotladdress import AxolotlAddress
    from yowsup.axolotl.store.sqlite.liteaxolotlstore import LiteAxolotlStore
    pool = chk.pool
    path = os.path.join(tempfile.mkdtemp(prefix="c13o-", dir=boot.scratch_dir()), "axolotl.db")
    store = LiteAxolotlStore(path)
    what = case["what"]
    chk.hit("otherkey:" + what)
    refused = None
    g1, g2 = "4915-1400000000@g.us", "4915-1400000001@g.us"
    if what.startswith("session"):
        store.storeSession(4915001, 1, pool.session[0])
        first = lambda st: st.loadSession(4915001, 1).serialize() if st.containsSession(4915001, 1) else None
        want = pool.session[0].serialize()
        try:
            if what == "session-other-device":
                store.storeSession(4915001, 2, pool.session[1])
            else:
                store.deleteSession(4915001, 2)
        except Exception as e:
            refused = type(e).__name__
    elif what.startswith("senderkey"):
        n1 = SenderKeyName(g1, AxolotlAddress("4915001", 0))
        n2 = SenderKeyName(g1, AxolotlAddress("4915002", 0)) if what == "senderkey-other-sender" else SenderKeyName(g2, AxolotlAddress("4915001", 0))
        store.storeSenderKey(n1, pool.sender[0])
        first = lambda st: st.loadSenderKey(n1).serialize()
        want = pool.sender[0].serialize()
        try:
            store.storeSenderKey(n2, pool.sender[1])
        except Exception as e:
            refused = type(e).__name__
    elif what == "prekey-neighbour":
        store.storePreKey(7, pool.prekey(7, 0))
        first = lambda st: st.loadPreKey(7).serialize()
        want = pool.prekey(7, 0).serialize()
        try:
            store.storePreKey(8, pool.prekey(8, 1))
            store.removePreKey(8)
            store.preKeyStore.setAsSent([8])
        except Exception as e:
            refused = type(e).__name__
    elif what == "signed-neighbour":
        store.storeSignedPreKey(3, pool.signed(3, 0))
        first = lambda st: st.loadSignedPreKey(3).serialize()
        want = pool.signed(3, 0).serialize()
        try:
            store.storeSignedPreKey(4, pool.signed(4, 1))
            store.removeSignedPreKey(4)
        except Exception as e:
            refused = type(e).__name__
    else:
        store.saveIdentity(4915001, pool.identity[0])
        first = lambda st: st.isTrustedIdentity(4915001, pool.identity[0])
        want = True
        try:
            store.saveIdentity(4915002, pool.identity[1])
        except Exception as e:
            refused = type(e).__name__
    if case["reopen"]:
        store.identityKeyStore.dbConn.close()
        store = LiteAxolotlStore(path)
    try:
        got = first(store)
    except Exception as e:
        got = "raises %s" % type(e).__name__
    if got != want:
        return [oracle("C13:other-key-operation-costs-a-record:" + what, "%s%s: the record stored first is %s afterwards (the second operation was %s)"
                       % (what, " + reopen" if case["reopen"] else "", "gone" if got is None else ("changed" if not isinstance(got, str) else got), "refused with " + refused if refused else "accepted"))]
    return []


def _shaped(shape, rr):
    body = bytearray(rr.randrange(256) for _ in range(32))
    if shape.startswith("end"):
        body[-1] = int(shape[3:], 16)
    elif shape != "random":
        pre = bytes.fromhex(shape)
        body[:len(pre)] = pre
    return bytes(body)


def run_localid(chk, case):
    import os
    import random
    import tempfile
    from axolotl.ecc.djbec import DjbECPublicKey, DjbECPrivateKey
    from axolotl.identitykey import IdentityKey
    from axolotl.identitykeypair import IdentityKeyPair
    import yowsup.axolotl.store.sqlite.liteidentitykeystore as LI
    from yowsup.axolotl.store.sqlite.liteaxolotlstore import LiteAxolotlStore
    rr = random.Random(case["seed"])
    pub, priv, regid = _shaped(case["pub"], rr), _shaped(case["priv"], rr), case["regid"]
    pair = IdentityKeyPair(IdentityKey(DjbECPublicKey(pub)), DjbECPrivateKey(priv))

    class KH(object):
        """the key helper of the identity store, producing the identity of this case (the store creates the identity itself on first open)"""
        @staticmethod
        def generateIdentityKeyPair():
            return pair

        @staticmethod
        def generateRegistrationId(*a, **kw):
            return regid

        def __getattr__(self, n):
            return getattr(real, n)
    real = LI.KeyHelper
    path = os.path.join(tempfile.mkdtemp(prefix="c13l-", dir=boot.scratch_dir()), "axolotl.db")
    LI.KeyHelper = KH()
    try:
        store = LiteAxolotlStore(path)
    finally:
        LI.KeyHelper = real
    chk.hit("localid:pub=%s" % case["pub"][:6], "localid:priv=%s" % case["priv"][:6])
    want = (bytes(pair.getPublicKey().serialize()), bytes(pair.getPrivateKey().serialize()), regid)
    out = []
    for when in ("in the creating process", "after a reopen"):
        try:
            kp = store.getIdentityKeyPair()
            got = (bytes(kp.getPublicKey().serialize()), bytes(kp.getPrivateKey().serialize()), store.getLocalRegistrationId())
        except Exception as e:
            got = ("raised " + type(e).__name__, None, None)
        if got != want:
            which = "public identity key" if got[0] != want[0] else "private identity key" if got[1] != want[1] else "registration id"
            i = 0 if got[0] != want[0] else 1 if got[1] != want[1] else 2
            out.append(oracle("C13:own-identity-altered", "own identity with public key %s.., private key %s.., registration id %d: %s the %s reads back as %s (stored: %s)"
                              % (pub[:4].hex(), priv[:4].hex(), regid, when, which, got[i].hex() if isinstance(got[i], bytes) else got[i],
                                 want[i].hex() if isinstance(want[i], bytes) else want[i])))
            break
        close_store(store)
        store = LiteAxolotlStore(path)          # (a reopen must find the identity, not create another one)
    close_store(store)
    return out


def run_newprocess(chk, case):
    import shutil
    import subprocess
    import sys
    import tempfile
    d = tempfile.mkdtemp(prefix="c13p-", dir=boot.scratch_dir())
    fails = []
    try:
        path = os.path.join(d, "axolotl.db")
        env = dict(os.environ)
        env.pop("PYTHONHASHSEED", None)            # every life draws its own salt, as real processes do
        here = os.path.join(os.path.dirname(os.path.abspath(__file__)), "..")
        script = os.path.join(here, "lib", "storeproc.py")
        env["PYTHONPATH"] = os.path.abspath(here) + os.pathsep + env.get("PYTHONPATH", "")

        def life(*args):
            p = subprocess.run([sys.executable, script] + list(args), env=env, stdout=subprocess.PIPE, stderr=subprocess.PIPE, timeout=120)
            if p.returncode != 0:
                return None, p.stderr.decode("utf-8", "replace").strip().splitlines()[-1:] or ["exit %d" % p.returncode]
            return dict(l.split() for l in p.stdout.decode().splitlines()), None
        wrote, err = life("write", path)
        if wrote is None:
            return [oracle("C13:store-raises-in-a-fresh-process", "a fresh process storing one record of every kind: %s" % err)]
        wfile = os.path.join(d, "written.txt")
        with open(wfile, "w") as f:
            f.write("".join("%s %s\n" % kv for kv in sorted(wrote.items())))
        for n in range(2):                           # two later lives: the first restart and the one after it
            read, err = life("read", path, wfile)
            chk.hit("newprocess:read")
            if read is None:
                fails.append(oracle("C13:load-raises-after-restart", "records of every kind stored by one process; process #%d after it cannot load them: %s" % (n + 2, err)))
                break
            bad = sorted(k for k in wrote if read.get(k) != wrote[k])
            if bad:
                k = bad[0]
                fails.append(oracle("C13:record-not-found-after-restart:" + k.split(":")[0],
                                    "records of every kind stored through the store's API by one process, loaded through the API by process #%d after it: %s comes back as %s "
                                    "(stored: %d bytes); differing: %s" % (n + 2, k, "nothing" if read.get(k) in (None, "-") else "%d other bytes" % (len(read[k]) // 2),
                                                                         len(wrote[k]) // 2, bad)))
                break
    finally:
        shutil.rmtree(d, ignore_errors=True)
    return fails


def run_stmtfault(chk, case):
    import os
    import sqlite3
    import tempfile
    from lib import sqlfault
    op, k, then = case["op"], case["k"], case["then"]
    table = TABLE_OF[op]
    key = KEYS[table][0]
    d = tempfile.mkdtemp(prefix="c13f-", dir=boot.scratch_dir())
    path = os.path.join(d, "axolotl.db")
    sqlfault.install()
    try:
        store = open_store(path)
        dr = chk.driver
        dr.ask("store reset")
        # something is stored under the key, and under a neighbouring key of every table
        pre = {0: 0, 1: 0, 2: 0, 3: 3, 4: 4, 5: 4, 6: 4, 7: 7, 8: 7, 9: 9}[op]
        axo.apply_op(store, chk.pool, pre, key, 0, key)
        dr.ask("store op %d %d 0 %d" % (pre, key, key))
        for o2 in (0, 3, 4, 7, 9):
            axo.apply_op(store, chk.pool, o2, KEYS[TABLE_OF[o2]][1], 2, 0)
            dr.ask("store op %d %d 2 0" % (o2, KEYS[TABLE_OF[o2]][1]))
        before, _l = axo.dump(path, chk.pool)
        sqlfault.arm(d, k, writes_only=True)
        refused = None
        try:
            axo.apply_op(store, chk.pool, op, key, 1, key)
        except Exception as e:
            refused = "%s: %s" % (type(e).__name__, e)
        fired = sqlfault.fired()
        sqlfault.disarm()
        chk.hit("stmtfault:%s" % ("fired" if fired else "not-reached"), "stmtfault:op=%d" % op)
        mres = dr.ask("store faultrun %d %d %d 1 %d" % (op, k, key, key))
        if not fired:
            if mres != "not-reached":
                return [corr("stmtfault", "%s: the operation has no write statement #%d, the model's skeleton has (%s)" % (axo.OPS[op][0], k, mres))]
            return []
        in_tx = store.identityKeyStore.dbConn.in_transaction
        if mres != ("pending" if in_tx else "rolled-back"):
            return [corr("stmtfault", "%s with write statement #%d failing: the connection is %s a transaction afterwards, the model says %s"
                         % (axo.OPS[op][0], k, "still inside" if in_tx else "not inside", mres))]
        # the next successful operation (on another key)
        axo.apply_op(store, chk.pool, then, KEYS[TABLE_OF[then]][2], 3, 0)
        dr.ask("store op %d %d 3 0" % (then, KEYS[TABLE_OF[then]][2]))
        close_store(store)
        after, _l = axo.dump(path, chk.pool)
        dr.ask("store reopen")
        model = dr.ask("store dump")
        if axo.show_dump(after) != model:
            return [corr("stmtfault", "%s on key %d with write statement #%d failing, then %s, close: file=%s model=%s"
                         % (axo.OPS[op][0], key, k, axo.OPS[then][0], axo.show_dump(after), model))]
    finally:
        sqlfault.uninstall()
    ti = table
    was = [r for r in before[ti] if r[0] == key]
    now = [r for r in after[ti] if r[0] == key]
    others_before = [[r for r in t if not (i == ti and r[0] == key) and not (i == TABLE_OF[then] and r[0] == KEYS[TABLE_OF[then]][2])] for i, t in enumerate(before)]
    others_after = [[r for r in t if not (i == ti and r[0] == key) and not (i == TABLE_OF[then] and r[0] == KEYS[TABLE_OF[then]][2])] for i, t in enumerate(after)]
    name = axo.OPS[op][0]
    # (per record: its previous value or the operation's new one — for an operation that stores or updates, never no record at all)
    if refused and was and not now and axo.OPS[op][1] in ("replace", "insertNew", "markSent"):
        return [oracle("C13:failed-replacement-loses-record", "%s on key %d with statement #%d failing (%s): the operation was refused (%s), then %s on another key succeeded: the record "
                       "stored under the key before is %s" % (name, key, k, fired, refused, axo.OPS[then][0], "gone" if not now else "changed to %r" % (now,)))]
    if others_before != others_after:
        return [oracle("C13:failed-operation-damages-other-records", "%s on key %d with statement #%d failing (%s), then %s: records under other keys changed"
                       % (name, key, k, fired, axo.OPS[then][0]))]
    return []


def run_factory(chk, case):
    import os
    import sqlite3
    import uuid
    from yowsup.axolotl.factory import AxolotlManagerFactory
    from yowsup.common.tools import StorageTools
    tag = uuid.uuid4().hex[:8]
    shape, op = case["shape"], case["op"]
    pa, pb = "c13fa-" + tag, ("c13fa-" if shape == "same-profile-twice" else "c13fb-") + tag
    n = int(tag, 16) % 10 ** 7
    ua = "49151%07d" % n
    ub = ("49152%07d" % n) if shape == "two-accounts" else ua
    chk.hit("factory:" + shape)
    fac = AxolotlManagerFactory()
    first = [(pa, ua), (pb, ub)][::-1 if shape.endswith("reversed") else 1]
    m1 = fac.get_manager(*first[0])
    m2 = AxolotlManagerFactory().get_manager(*first[1])
    key = KEYS[TABLE_OF[op]][0]
    axo.apply_op(m2._store, chk.pool, op, key, 1, key)
    path1, path2 = StorageTools.constructPath(first[0][0], "axolotl.db"), StorageTools.constructPath(first[1][0], "axolotl.db")
    out = []

    def dump_or_none(path):
        try:
            return axo.dump(path, chk.pool) if os.path.exists(path) else (None, None)
        except sqlite3.Error:
            return None, None          # not a key store (no tables)
    try:
        d2, l2 = dump_or_none(path2)
        if d2 is None or not [r for r in d2[TABLE_OF[op]] if r[0] == key and r[1] == 1]:
            out.append(oracle("C13:written-to-another-profile", "%s (%s, then %s opened through the manager factory in one process): %s through the second manager — the record is not in "
                              "that profile's own database file%s: a restart that opens this profile does not find it"
                              % (shape, first[0], first[1], axo.OPS[op][0], " (the file does not even exist)" if d2 is None else "")))
        elif path1 != path2:
            d1, l1 = dump_or_none(path1)
            if d1 is None:
                out.append(oracle("C13:written-to-another-profile", "%s: the first profile opened through the factory has no key store file of its own" % shape))
            elif [r for r in d1[TABLE_OF[op]] if r[0] == key]:
                out.append(oracle("C13:written-to-another-profile", "%s: %s through the second manager also appears in the FIRST profile's file" % (shape, axo.OPS[op][0])))
            elif l1 == l2:
                out.append(oracle("C13:profiles-share-identity", "%s: both profiles' files hold the same own identity and registration id" % shape))
        if not out and d2 is not None:
            own = l2[0] if l2 else None
            if own is None or int(own[0]) != int(m2.registration_id) or bytes(own[1]) != bytes(m2.identity.getPublicKey().serialize()):
                out.append(oracle("C13:manager-identity-not-the-profiles", "%s: the second manager presents an identity / registration id that is not the one in its profile's file" % shape))
    finally:
        for m in (m1, m2):
            try:
                close_store(m._store)
            except Exception:
                pass
    return out


def run_case(chk, stream, case):
    if stream == "otherkey":
        return run_otherkey(chk, case)
    if stream == "factory":
        return run_factory(chk, case)
    if stream == "stmtfault":
        return run_stmtfault(chk, case)
    if stream == "newprocess":
        return run_newprocess(chk, case)
    if stream == "localid":
        return run_localid(chk, case)
    if stream == "journal":
        return run_journal(chk, case)
    case = dict(case)
    for key in ("steps", "pre"):
        if key in case:
            case[key] = [_norm(st) for st in case[key]]
    if "op" in case:
        case["op"] = _norm(case["op"])
    fails = []
    pool = chk.pool
    chk.n += 1
    path = os.path.join(chk.tmp, "db%d.sqlite" % chk.n)
    d = chk.driver
    d.ask("store reset")
    store = open_store(path)
    _d0, local0 = axo.dump(path, pool)
    m = {}
    try:
        if stream == "history":
            diverged = False
            for i, step in enumerate(case["steps"]):
                if step == "reopen":
                    close_store(store)
                    store = open_store(path)
                    d.ask("store reopen")
                    chk.hit("reopen")
                    bad = check_loads(store, pool, m)
                    _dd, local = axo.dump(path, pool)
                    if local != local0:
                        bad.append("own identity / registration id changed across reopen")
                    if bad:
                        fails.append(oracle("C13:not-durable", "history %s: after reopen #%d: %s" % (case["steps"][:i + 1], i, "; ".join(bad[:4]))))
                        break
                    continue
                res = real_op(store, pool, step)
                want = spec_apply(m, *step)
                mres = d.ask("store op %d %d %d %d" % tuple(step))
                chk.hit("op:" + axo.OPS[step[0]][0], "result:" + res)
                impl = "%s %s" % (res, axo.show_dump(axo.dump(path, pool)[0]))
                model = "%s %s" % (mres, d.ask("store dump"))
                if res == "raised":
                    # python's sqlite3 leaves the implicit transaction open after the IntegrityError; so does the model
                    pass
                if impl != model and not diverged:
                    fails.append(corr("history:" + axo.OPS[step[0]][0], "step %d %s of %s: impl=%s model=%s" % (i, step, case["steps"], impl, model)))
                    diverged = True     # the real store runs on: the reopen checks against the abstract map decide whether this is a failing input
                if res != want:
                    fails.append(oracle("C13:api-result", "step %d %s: store answered %s, specification says %s" % (i, step, res, want)))
                    break
        else:
            for step in case["pre"]:
                real_op(store, pool, step)
                spec_apply(m, *step)
                d.ask("store op %d %d %d %d" % tuple(step))
            close_store(store)
            store = None
            d.ask("store reopen")
            old = dict(m)
            new = dict(m)
            spec_apply(new, *case["op"])
            op, j = case["op"], case["kill"]
            pid = os.fork()
            if pid == 0:
                code = 3
                try:
                    _child(path, pool, op, j, case.get("mode", "kill"))
                    code = 0
                except sqlite3.IntegrityError:
                    code = 5
                except _Interrupted:
                    code = 17            # the stack has unwound (every finally block of the store ran); now the process is gone
                finally:
                    os._exit(code)
            _pid, status = os.waitpid(pid, 0)
            code = os.WEXITSTATUS(status)
            killed = code == 17
            rec, local = axo.dump(path, pool)
            out = d.ask("store crashrun %d %d %d %d %d" % (op[0], j, op[1], op[2], op[3]))
            nst, mdump = out.split(" ", 1) if " " in out else (out, "")
            chk.hit("crash-op:" + axo.OPS[op[0]][0], "killed" if killed else "ran-to-end(code %d)" % code, "kill@%d" % j)
            impl = axo.show_dump(rec)
            if killed and impl != mdump:
                fails.append(corr("crash:" + axo.OPS[op[0]][0], "pre %s op %s killed before write statement #%d: file=%s model=%s"
                                  % (case["pre"], op, j, impl, mdump)))
            if not killed and code not in (0, 5):
                fails.append(corr("crash:child", "child exit code %d" % code))
            got = dump_to_map(rec)
            bad = []
            for key in set(old) | set(new) | set(got):
                if got.get(key) not in (old.get(key), new.get(key)):
                    bad.append("%s[%d] is %s after the crash; before the operation it was %s, the operation sets it to %s"
                               % (axo.TABLES[key[0]], key[1], got.get(key), old.get(key), new.get(key)))
            if local != local0:
                bad.append("own identity / registration id changed")
            if bad:
                fails.append(oracle("C13:crash-not-atomic:" + axo.OPS[op[0]][0],
                                    "history %s then %s%s, process %s before its write statement #%d: %s"
                                    % (case["pre"], axo.OPS[op[0]][0], tuple(op[1:]), "interrupted by an exception" if case.get("mode") == "raise" else "killed", j, "; ".join(bad[:3]))))
    finally:
        if store is not None:
            close_store(store)
        for suffix in ("", "-journal", "-wal", "-shm"):
            try:
                os.unlink(path + suffix)
            except OSError:
                pass
    return fails


class _Interrupted(BaseException):
    """the process is dying by an exception (what a KeyboardInterrupt / SIGINT does): the stack unwinds, finally blocks run, then the process ends"""


def _child(path, pool, op, j, mode="kill"):
    """open the real store; die just before the j-th write statement (BEGIN/COMMIT/DML) of the operation — by a hard kill (os._exit), or,
    mode "raise", by an exception raised at the store's next call into the database after the (j-1)-th statement has run"""
    state = {"n": 0, "armed": False, "hit": False}
    real_connect = sqlite3.connect

    def tracer(sql):
        if not state["armed"]:
            return
        u = sql.strip().upper()
        if u.startswith(("BEGIN", "COMMIT", "DELETE", "INSERT", "UPDATE", "ROLLBACK", "REPLACE")):
            if mode == "kill":
                if state["n"] == j:
                    os._exit(17)
            elif state["n"] + 1 == j:
                state["hit"] = True          # this statement still runs; the next call into the database raises
            state["n"] += 1

    def check():
        if state["armed"] and not state.get("raised") and (state["hit"] or (mode == "raise" and j == 0)):
            state["raised"] = True           # once: what the unwinding stack still does with the database is the code's own doing
            raise _Interrupted()

    class Cur(sqlite3.Cursor):
        def execute(self, *a, **kw):
            check()
            return sqlite3.Cursor.execute(self, *a, **kw)

    class Conn(sqlite3.Connection):
        def cursor(self, *a, **kw):
            return sqlite3.Connection.cursor(self, Cur)

        def execute(self, *a, **kw):
            check()
            return sqlite3.Connection.execute(self, *a, **kw)

        def commit(self):
            check()
            return sqlite3.Connection.commit(self)

    def connect(*a, **kw):
        if mode == "raise":
            kw["factory"] = Conn
        c = real_connect(*a, **kw)
        c.set_trace_callback(tracer)
        return c
    sqlite3.connect = connect
    store = open_store(path)
    state["armed"] = True
    axo.apply_op(store, pool, op[0], op[1], op[2], op[3])
    state["armed"] = False
    close_store(store)


def shrink(stream, case):
    if stream in ("journal", "otherkey", "localid", "stmtfault", "factory", "newprocess"):
        return
    if stream == "crash":
        pre = case["pre"]
        for i in range(len(pre)):
            yield dict(case, pre=pre[:i] + pre[i + 1:])
    else:
        st = case["steps"]
        for i in range(len(st) - 1):
            yield {"steps": st[:i] + st[i + 1:]}
