"""C10  Message payloads — Model/Payload.lean (with the schema table regenerated from the source) vs the real
AttributesConverter: generated attribute objects of every kind (all optional-field subsets, falsy and truthy
values, nested context / quoted messages) are serialised to bytes and parsed back; the result is compared with
the model's prediction and with the input (the property itself); the bytes are re-serialised from the parsed
object and must not change; entity-level conversion (ProtomessageProtocolEntity / media entities) is exercised
for complete messages."""
import boot  # noqa: F401
from core import corr, oracle
from lib import payloadspec as ps

PID = "C10"
GEN = ["payloadschema"]
LEAN_MODULES = ["YowsupVerif.Props.C10"]
RULE = ("attribute objects of all 13 schemas (message, image, contact, location, extended text, document, audio, video, sticker, sender-key "
        "distribution, protocol/revoke, message key, context info) with every optional field independently unset / falsy (\"\", 0, b\"\", False, []) / "
        "truthy (unicode text, binary blobs, large numbers), context info and quoted messages nested to depth 3; complete messages additionally "
        "through the entity classes (stanza <-> entity).  distinct = distinct (schema, shape of set / falsy / truthy fields).")
RULE += (' String values with inner structure (mimetype parameters, padding, URLs, JIDs); what arrives is also compared with the values handed to the constructors.')
ASSUMPTIONS = ["google.protobuf's serialisation of the generated e2e_pb2 classes is correct (SerializeToString / ParseFromString are inverse on valid messages)",
               "scalar values are abstracted to {unset, falsy, other}: the converter copies values and only tests them for None / truth"]


def _gen_scalar(r, t, mode):
    if mode == "falsy":
        return ps.falsy(t)
    if t == "str":
        return r.choice([u"x", u"héllo wörld 世界", u"line1\nline2", u"\U0001F600 emoji", u"a" * r.randint(1, 300),
                         # values with inner structure that a "normalising" accessor would trim, split, re-case or re-quote
                         u"audio/ogg; codecs=opus", u'video/mp4; codecs="avc1.42E01E, mp4a.40.2"', u"Image/JPEG", u"  padded  ", u"trailing\n",
                         u"https://mmg.whatsapp.net/d/f/Abc-123.enc?x=1&y=%2F#frag", u"/v/t62.7118-24/12345_n.enc?oh=ab&oe=5F", u"name.tar.gz", u"a/b\\c:d",
                         u"4915112345@s.whatsapp.net", u"+49 151 12345", u"0", u"None", u"nul\x00inside", u"tab\there", u"semi;colon,comma=eq"])
    if t == "bytes":
        return bytes(bytearray(r.randrange(256) for _ in range(r.randint(1, 40)))) or b"\x01"
    if t == "int":
        return r.choice([1, 7, 640, 2 ** 31 - 1, r.randint(1, 10 ** 6)])
    if t == "bool":
        return True
    if t == "float":
        return r.randint(-720, 720) / 4.0 or 0.25
    if t == "enum":
        return r.choice([1, 2])
    if t == "enum0":
        return 0
    if t == "list":
        return ["49%d@s.whatsapp.net" % r.randint(100, 999) for _ in range(r.randint(1, 3))]
    raise ValueError(t)


# (schema, paths) of the fields that are 64 bits wide in WhatsApp's schema
WIDE_FIELDS = [("image", ["dl.file_length"]), ("video", ["dl.file_length"]), ("audio", ["dl.file_length"]), ("document", ["dl.file_length"]),
               ("sticker", ["dl.file_length"])]


def gen_spec(r, name, depth, required):
    """a JSON-able spec of an attribute object: {path: ["none"] | ["falsy"] | ["val", seed] | ["sub", spec]}"""
    spec = {}
    for p, t in ps.flat_fields(name):
        req = p in required.get(name, ())
        if t.startswith("sub:"):
            sub = t[4:]
            if req:
                spec[p] = ["sub", gen_spec(r, sub, depth + 1, required)]
            elif depth >= 3 or r.random() < (0.55 if sub in ("contextinfo", "message") else 0.8):
                spec[p] = ["none"]
            else:
                spec[p] = ["sub", gen_spec(r, sub, depth + 1, required)]
        elif t == "enum0":
            spec[p] = ["val", 0]
        elif t == "list":
            spec[p] = r.choice([["falsy"], ["val", r.randrange(1 << 20)]])
        else:
            x = r.random()
            if req:
                spec[p] = ["falsy"] if x < 0.2 else ["val", r.randrange(1 << 20)]
            else:
                spec[p] = ["none"] if x < 0.35 else (["falsy"] if x < 0.55 else ["val", r.randrange(1 << 20)])
    if name == "document" and r.random() < 0.97:
        spec["file_length"] = list(spec["dl.file_length"])      # the two file_length attributes agree (see the recorded finding)
    return spec


def only(r, name, keep, required):
    """a spec of schema `name` with the fields of `keep` set as given, required fields filled, everything else unset"""
    spec = {}
    for p, t in ps.flat_fields(name):
        if p in keep:
            spec[p] = keep[p]
        elif t.startswith("sub:"):
            spec[p] = ["sub", gen_spec(r, t[4:], 3, required)] if p in required.get(name, ()) else ["none"]
        elif t == "enum0":
            spec[p] = ["val", 0]
        elif t == "list":
            spec[p] = ["falsy"]
        else:
            spec[p] = ["val", r.randrange(1 << 20)] if p in required.get(name, ()) else ["none"]
    return spec


def quote_chain(r, k, required, carrier="extendedtext"):
    """a message that quotes a message that quotes ... k levels deep (a reply to a reply to ...); the innermost one is a plain text"""
    if k == 0:
        return only(r, "message", {"conversation": ["val", r.randrange(1 << 20)]}, required)
    ctx = only(r, "contextinfo", {"stanza_id": ["val", r.randrange(1 << 20)], "quoted_message": ["sub", quote_chain(r, k - 1, required, carrier)]}, required)
    if carrier == "image":
        inner = only(r, "image", {"dl.context_info": ["sub", ctx], "caption": ["val", r.randrange(1 << 20)]}, required)
        return only(r, "message", {"image": ["sub", inner]}, required)
    inner = only(r, "extendedtext", {"text": ["val", r.randrange(1 << 20)], "context_info": ["sub", ctx]}, required)
    return only(r, "message", {"extended_text": ["sub", inner]}, required)


def build_obj(name, spec, given=None):
    """the attribute object of a spec; `given` (a dict) receives what was handed to the constructors: path -> value, sub-objects as dicts"""
    import random
    vals = {}
    for p, t in ps.flat_fields(name):
        s = spec[p]
        if s[0] == "none":
            vals[p] = None
        elif s[0] == "falsy":
            vals[p] = ps.falsy(t)
        elif s[0] == "val":
            vals[p] = _gen_scalar(random.Random(s[1]), t, "val")
        elif s[0] == "lit":
            vals[p] = s[1]
        else:
            sub = {} if given is not None else None
            vals[p] = build_obj(t[4:], s[1], sub)
            if given is not None:
                given[p] = sub
            continue
        if given is not None:
            given[p] = vals[p]
    return ps.build(name, vals)


def _diff_given(name, given, b, path=""):
    """first difference between what the application handed to the constructors and the fields of attribute object `b`"""
    import copy
    fb = ps.flatten(name, b)
    for p, t in ps.flat_fields(name):
        va, vb = given[p], fb[p]
        if t.startswith("sub:"):
            if va is None or vb is None:
                if (va is None) != (vb is None):
                    return (path + p, "unset" if va is None else "set", "unset" if vb is None else "set")
            else:
                d = _diff_given(t[4:], va, vb, path + p + ".")
                if d:
                    return d
        elif t == "list":
            if list(va or []) != list(vb or []):
                return (path + p, va, vb)
        elif va is None or vb is None:
            if va is not vb:
                return (path + p, va, vb)
        elif not ps._eq(va, vb):
            return (path + p, copy.copy(va), vb)


def tokens_of(name, obj, table):
    """model value of an attribute object; `table` collects the distinct non-falsy scalars (index = token)"""
    out = ["("]
    flat = ps.flatten(name, obj)
    for p, t in ps.flat_fields(name):
        v = flat[p]
        if t.startswith("sub:"):
            out += ["N"] if v is None else tokens_of(t[4:], v, table)
        elif t == "list":
            xs = list(v or [])
            ids = []
            for x in xs:
                ids.append(str(_tok(table, x)))
            out.append("L" + ",".join(ids))
        elif v is None:
            out.append("N")
        elif v == ps.falsy(t) and not (t == "bool" and v is not False) and type(v) in (type(ps.falsy(t)), int, float, bool):
            out.append("S0")
        else:
            out.append("S%d" % _tok(table, v))
    out.append(")")
    return out


def _tok(table, v):
    key = (type(v).__name__ if not isinstance(v, (int, float)) or isinstance(v, bool) else "num", v if not isinstance(v, (bytearray,)) else bytes(v))
    if key not in table:
        table[key] = len(table) + 1
    return table[key]


def required_fields(chk):
    if not hasattr(chk, "_c10_required"):
        req = {}
        for name, *_r in ps.SCHEMAS:
            try:
                req[name] = set(r["path"] for r in ps.probe_schema(name) if r["fwd"] == "always")
            except Exception:
                req[name] = set()
        chk._c10_required = req
    return chk._c10_required


def cases(chk):
    r = chk.rng
    req = required_fields(chk)
    _REQUIRED.update(req)
    names = [s[0] for s in ps.SCHEMAS]
    # every schema with everything unset / everything falsy / everything set
    for name in names:
        for mode in ("none", "falsy", "val"):
            spec = {}
            for p, t in ps.flat_fields(name):
                if t.startswith("sub:"):
                    spec[p] = ["sub", gen_spec(r, t[4:], 3, req)] if p in req.get(name, ()) else ["none"]
                elif t == "enum0":
                    spec[p] = ["val", 0]
                elif mode == "none" and p not in req.get(name, ()) and t != "list":
                    spec[p] = ["none"]
                elif mode == "val":
                    spec[p] = ["val", r.randrange(1 << 20)]
                else:
                    spec[p] = ["falsy"]
            yield "object", {"schema": name, "spec": spec}
    # replies to replies to replies ...: quoted messages nested 1..8 deep (the converter recurses through context_info.quoted_message)
    for k in (1, 2, 3, 4, 5, 8):
        for carrier in ("extendedtext", "image"):
            yield "object", {"schema": "message", "spec": quote_chain(r, k, req, carrier)}
    for _ in range(chk.scale(4000, 80000)):
        name = r.choice(names + ["message", "message", "contextinfo"])
        yield "object", {"schema": name, "spec": gen_spec(r, name, 0, req)}
    # the 64-bit fields of WhatsApp's payload schema (file lengths, media key timestamps — pinned here from the published schema, not read from the
    # library's copy of it) with values that need more than 32 bits: a 4 GiB video is a legal message
    import random
    r2 = random.Random(6400 + chk.seed)
    for name, fields in WIDE_FIELDS:
        for f in fields:
            for v in (2 ** 32 - 1, 2 ** 32, 2 ** 32 + 5, 2 ** 40 + 123, 2 ** 63 - 1, 2 ** 63 + 9, 2 ** 64 - 1):
                keep = {f: ["lit", v]}
                if name == "document" and f == "dl.file_length":
                    keep["file_length"] = ["lit", v]          # (the two file_length attributes agree: see the recorded finding)
                inner = only(r2, name, keep, req)
                field = [p for p, t in ps.flat_fields("message") if t == "sub:" + name][0]
                yield "object", {"schema": name, "spec": inner}
                yield "object", {"schema": "message", "spec": only(r2, "message", {field: ["sub", inner]}, req)}
    # two objects built from defaults, one of them edited in place: the other must not change (shared mutable defaults, class-level state)
    for name in sorted(ps._classes()):
        yield "aliasing", {"schema": name}
    for _ in range(chk.scale(400, 8000)):
        kind = r.choice(["conversation", "image", "contact", "location", "extended_text", "document", "audio", "video", "sticker"])
        yield "entity", {"kind": kind, "seed": r.randrange(1 << 30), "group": r.random() < 0.3}


def nontrivial(stream, case):
    if stream == "entity":
        return (case["kind"], case["seed"] % 64, case["group"])
    if stream == "aliasing":
        return ("aliasing", case["schema"])

    def shape(spec):
        return tuple((p, s[0] if s[0] != "sub" else shape(s[1])) for p, s in sorted(spec.items()))
    return (case["schema"], shape(case["spec"]))


_REQUIRED = {}       # schema -> required paths (filled by cases()): the shrinker never unsets these — a spec without them is not a message anybody can compose


def shrink(stream, case):
    if stream != "object":
        return
    for spec in _shrink_spec(case["schema"], case["spec"]):
        yield dict(case, spec=spec)


def _shrink_spec(name, spec):
    types = dict(ps.flat_fields(name))
    for p, s in spec.items():
        if s[0] in ("val", "falsy", "sub", "lit") and p not in _REQUIRED.get(name, ()):
            yield dict(spec, **{p: ["none"]})
        if s[0] == "sub":
            for sub in _shrink_spec(types[p][4:], s[1]):
                yield dict(spec, **{p: ["sub", sub]})


def _diff(name, a, b, path=""):
    """first difference between two attribute objects of schema `name`: (path, a-value, b-value) or None"""
    fa, fb = ps.flatten(name, a), ps.flatten(name, b)
    for p, t in ps.flat_fields(name):
        va, vb = fa[p], fb[p]
        if t.startswith("sub:"):
            if va is None or vb is None:
                if va is not vb:
                    return (path + p, "unset" if va is None else "set", "unset" if vb is None else "set")
            else:
                d = _diff(t[4:], va, vb, path + p + ".")
                if d:
                    return d
        elif t == "list":
            if list(va or []) != list(vb or []):
                return (path + p, va, vb)
        elif va is None or vb is None:
            if va is not vb:
                return (path + p, va, vb)
        elif not ps._eq(va, vb) or (isinstance(va, bool) != isinstance(vb, bool) and t == "bool"):
            return (path + p, va, vb)
    return None


def _snapshot(o, depth=0):
    if depth > 6:
        return "…"
    if isinstance(o, (list, tuple)):
        return [_snapshot(x, depth + 1) for x in o]
    if isinstance(o, dict):
        return sorted((repr(k), _snapshot(v, depth + 1)) for k, v in o.items())
    if hasattr(o, "__dict__") and type(o).__module__.startswith("yowsup"):
        return (type(o).__name__, sorted((k, _snapshot(v, depth + 1)) for k, v in vars(o).items()))
    return repr(o)


def _mutables(o, path="", depth=0, seen=None):
    seen = seen if seen is not None else set()
    if id(o) in seen or depth > 6:
        return
    seen.add(id(o))
    if isinstance(o, (list, dict, set, bytearray)):
        yield path, o
    if isinstance(o, (list, tuple)):
        for i, x in enumerate(o):
            for y in _mutables(x, "%s[%d]" % (path, i), depth + 1, seen):
                yield y
    elif hasattr(o, "__dict__") and type(o).__module__.startswith("yowsup"):
        for k, v in vars(o).items():
            for y in _mutables(v, "%s.%s" % (path, k.lstrip("_")), depth + 1, seen):
                yield y


def run_aliasing(chk, case):
    """two attribute objects of the class built with the required arguments only (every optional parameter left to its default); every
    mutable container reachable from the first is edited in place; the second must still serialise to what it did before"""
    import inspect
    fails = []
    name = case["schema"]
    cls = ps._classes()[name]
    types = dict(ps.DL_FIELDS) if name == "dl" else dict((f, t) for f, t in ps.SCHEMAS[ps.SCHEMA_IDS[name]][3])

    def make():
        args = []
        for i, (pn, prm) in enumerate((k, v) for k, v in inspect.signature(cls.__init__).parameters.items() if k != "self"):
            if prm.default is not inspect.Parameter.empty:
                break
            t = types.get(pn, "str")
            if t.startswith("embed:"):
                args.append(ps._classes()["dl"](*[ps.truthy(dt, j) if not dt.startswith("sub:") else None for j, (_df, dt) in enumerate(ps.DL_FIELDS)][:5] + [None]))
            elif t.startswith("sub:"):
                args.append(ps.minimal(t[4:], 1, i) if t[4:] not in ("message", "contextinfo") else None)
            else:
                args.append(ps.truthy(t, i))
        return cls(*args)
    try:
        a, b = make(), make()
    except Exception as e:
        chk.hit("aliasing:not-constructible")
        return fails
    chk.hit("aliasing:" + name)
    before = _snapshot(b)
    edited = []
    for path, m in _mutables(a):
        if isinstance(m, list):
            m.append("4915200000099@s.whatsapp.net")
        elif isinstance(m, dict):
            m["edited"] = 1
        elif isinstance(m, set):
            m.add("edited")
        else:
            m.extend(b"edited")
        edited.append(path)
    after = _snapshot(b)
    if before != after:
        fails.append(oracle("C10:objects-share-state:%s" % name, "two %s objects built with the required arguments only; editing %s of the first in place changed the second "
                            "(composed content that the sender never set)" % (cls.__name__, ", ".join(edited)[:120])))
    return fails


def run_case(chk, stream, case):
    if stream == "entity":
        return run_entity(chk, case)
    if stream == "aliasing":
        return run_aliasing(chk, case)
    fails = []
    name = case["schema"]
    sid = ps.SCHEMA_IDS[name]
    given = {}
    obj = build_obj(name, case["spec"], given)
    table = {}
    toks = tokens_of(name, obj, table)
    model = chk.driver.ask("pl rt %d %s" % (sid, " ".join(toks)))
    ctx = "schema %s, fields %s" % (name, _brief(case["spec"]))
    chk.hit("schema:" + name)
    # ---- real round trip through bytes
    try:
        proto = ps.to_proto(name, obj)
        data = proto.SerializeToString()
        parsed = type(proto)()
        parsed.ParseFromString(data)
        back = ps.from_proto(name, parsed)
        raised = None
    except Exception as e:
        raised = e
    if raised is not None:
        chk.hit("outcome:raised")
        if model != "raised":
            fails.append(corr("raise", "%s: the converter raised %s: %s; the model converts it" % (ctx, type(raised).__name__, raised)))
        fails.append(oracle("C10:conversion-raises:%s" % name, "%s: composing this content raises %s: %s" % (ctx, type(raised).__name__, str(raised)[:120])))
        return fails
    if model == "raised":
        fails.append(corr("raise", "%s: the model says the conversion raises; the converter returns normally" % ctx))
        return fails
    got = " ".join(tokens_of(name, back, table))
    if got != model:
        fails.append(corr("roundtrip:" + name, "%s: impl round trip = %s   model = %s   (input %s)" % (ctx, got, model, " ".join(toks))))
    # ---- the property: every field the sender set comes back with the same value, nothing unset appears
    d = _diff(name, obj, back)
    if d:
        chk.hit("outcome:differs")
        sig = "C10:field-not-preserved:%s.%s" % (name, d[0])
        if name == "document" or ".document" in d[0] or d[0].startswith("document"):
            if d[0].endswith("file_length"):
                sig = "C10:document-file-length-aliased"
        fails.append(oracle(sig, "%s: field %s was %r and comes back as %r" % (ctx, d[0], d[1], d[2])))
        return fails
    # ... measured against the values the application handed to the constructors, not against what the composed object says it holds
    d = _diff_given(name, given, back)
    if d and not (d[0].endswith("file_length") and (name == "document" or "document" in d[0])):
        chk.hit("outcome:differs-from-given")
        fails.append(oracle("C10:composed-value-altered:%s.%s" % (name, d[0]), "%s: field %s was composed as %r and arrives as %r" % (ctx, d[0], d[1], d[2])))
        return fails
    chk.hit("outcome:same")
    # ---- second clause: the parsed payload re-serialises to the same bytes
    try:
        again = ps.to_proto(name, back).SerializeToString()
    except Exception as e:
        fails.append(oracle("C10:reserialise-raises:%s" % name, "%s: re-serialising the parsed payload raises %s" % (ctx, type(e).__name__)))
        return fails
    if again != data:
        fails.append(oracle("C10:reserialised-payload-differs:%s" % name, "%s: the payload parsed from a peer re-serialises to different bytes" % ctx))
    # ---- the object still holds what the application composed: printing it and converting it a second time gives the same payload
    try:
        str(obj)
        data2 = ps.to_proto(name, obj).SerializeToString()
        back2 = " ".join(tokens_of(name, ps.from_proto(name, parsed), table))
    except Exception as e:
        fails.append(oracle("C10:second-conversion-raises:%s" % name, "%s: converting the same object a second time raises %s: %s" % (ctx, type(e).__name__, str(e)[:100])))
        return fails
    if data2 != data:
        fails.append(oracle("C10:second-conversion-differs:%s" % name, "%s: the same composed object converts to different bytes the second time" % ctx))
    if back2 != got:
        fails.append(oracle("C10:second-parse-differs:%s" % name, "%s: the same payload parses to different fields the second time: %s / %s" % (ctx, got[:150], back2[:150])))
    # ---- a REFUSED conversion leaves nothing behind: the quoted message of a reply is made unconvertible (a number where text belongs: the payload
    #      library refuses it), the conversion fails, the application puts the field right and sends again — the payload is the one composed
    holder = _first_quote(obj)
    if holder is not None:
        q = holder._quoted_message
        slot = None
        for o, attr in ((q, "_conversation"), (getattr(q, "_extended_text", None), "_text"), (getattr(q, "_image", None), "_caption")):
            if o is not None and isinstance(getattr(o, attr, None), str):
                slot = (o, attr, getattr(o, attr))
                break
        if slot is not None:
            o, attr, keep = slot
            setattr(o, attr, 12345)
            refused = False
            try:
                ps.to_proto(name, obj).SerializeToString()
            except Exception:
                refused = True
            setattr(o, attr, keep)
            if refused:
                chk.hit("object:refused-then-retried")
                try:
                    data3 = ps.to_proto(name, obj).SerializeToString()
                except Exception as e:
                    fails.append(oracle("C10:retry-after-refusal-raises:%s" % name, "%s: after a refused conversion (a quoted message with a number in a text field), the corrected "
                                        "object raises %s" % (ctx, type(e).__name__)))
                    return fails
                if data3 != data:
                    back3 = " ".join(tokens_of(name, ps.from_proto(name, ps.parse(name, data3)), table)) if hasattr(ps, "parse") else ""
                    fails.append(oracle("C10:retry-after-refusal-differs:%s" % name, "%s: a conversion was refused (a quoted message with a number in a text field); the field was put "
                                        "right and the same object converted again: the payload differs from the one composed %s" % (ctx, back3[:160])))
    return fails


def _first_quote(o, depth=0, seen=None):
    """the first attribute object (depth first) that carries a quoted message"""
    seen = seen if seen is not None else set()
    if o is None or id(o) in seen or depth > 8 or not hasattr(o, "__dict__"):
        return None
    seen.add(id(o))
    if getattr(o, "_quoted_message", None) is not None:
        return o
    for v in o.__dict__.values():
        r_ = _first_quote(v, depth + 1, seen)
        if r_ is not None:
            return r_
    return None


def _brief(spec):
    return "{" + ", ".join("%s=%s" % (p, s[0] if s[0] != "sub" else _brief(s[1])) for p, s in sorted(spec.items()) if s[0] != "none") + "}"


def run_entity(chk, case):
    """complete messages through the entity classes: entity -> stanza -> entity, and the codec accepts the stanza"""
    import random
    from yowsup.layers.protocol_media.protocolentities import (AudioDownloadableMediaMessageProtocolEntity, ContactMediaMessageProtocolEntity,
                                                               DocumentDownloadableMediaMessageProtocolEntity, ExtendedTextMediaMessageProtocolEntity,
                                                               ImageDownloadableMediaMessageProtocolEntity, LocationMediaMessageProtocolEntity,
                                                               StickerDownloadableMediaMessageProtocolEntity, VideoDownloadableMediaMessageProtocolEntity)
    from yowsup.layers.protocol_messages.protocolentities import TextMessageProtocolEntity
    from yowsup.layers.protocol_messages.protocolentities.attributes.attributes_message_meta import MessageMetaAttributes
    fails = []
    r = random.Random(case["seed"])
    req = required_fields(chk)
    kind = case["kind"]
    to = "4915500001-1400000000@g.us" if case["group"] else "4915500002@s.whatsapp.net"
    meta = MessageMetaAttributes(id="M%d" % case["seed"], recipient=to)
    chk.hit("entity:" + kind)
    sub = {"image": "image", "contact": "contact", "location": "location", "extended_text": "extendedtext", "document": "document", "audio": "audio",
           "video": "video", "sticker": "sticker"}.get(kind)
    try:
        if kind == "conversation":
            body = _gen_scalar(r, "str", "val")
            ent = TextMessageProtocolEntity(body, meta)
            cls = TextMessageProtocolEntity
        else:
            spec = gen_spec(r, sub, 1, req)
            if sub == "document":
                spec["file_length"] = ["none"]
            attrs = build_obj(sub, spec)
            cls = {"image": ImageDownloadableMediaMessageProtocolEntity, "contact": ContactMediaMessageProtocolEntity, "location": LocationMediaMessageProtocolEntity,
                   "extended_text": ExtendedTextMediaMessageProtocolEntity, "document": DocumentDownloadableMediaMessageProtocolEntity,
                   "audio": AudioDownloadableMediaMessageProtocolEntity, "video": VideoDownloadableMediaMessageProtocolEntity,
                   "sticker": StickerDownloadableMediaMessageProtocolEntity}[kind]
            ent = cls(attrs, meta)
        node = ent.toProtocolTreeNode()
        back = cls.fromProtocolTreeNode(node)
        node2 = back.toProtocolTreeNode()
    except Exception as e:
        import traceback
        fails.append(oracle("C10:entity-conversion-raises:%s" % kind, "complete %s message (seed %d): %s: %s" % (kind, case["seed"], type(e).__name__, traceback.format_exc().strip().splitlines()[-1][:160])))
        return fails
    d = _diff("message", ent.message_attributes, back.message_attributes)
    if d and not (kind == "document" and d[0].endswith("file_length")):
        fails.append(oracle("C10:entity-field-not-preserved:%s" % kind, "complete %s message (seed %d): field %s was %r, comes back as %r" % (kind, case["seed"], d[0], d[1], d[2])))
    # ---- the application edits the content of the entity it holds (in place, as the attribute objects allow) and sends it again:
    #      the payload must be the edited content (serialising is a function of the current content, not of an earlier call)
    try:
        if kind == "conversation":
            body2 = _gen_scalar(r, "str", "val") + "'"
            if r.random() < 0.5:
                ent.setBody(body2)
            else:
                ent.conversation = body2
            want_attrs = None
        else:
            spec2 = gen_spec(r, sub, 1, req)
            if sub == "document":
                spec2["file_length"] = ["none"]
            attrs2 = build_obj(sub, spec2)
            attrs.__dict__.clear()
            attrs.__dict__.update(attrs2.__dict__)
            want_attrs = attrs2
        node3 = ent.toProtocolTreeNode()
        back3 = cls.fromProtocolTreeNode(node3)
        chk.hit("entity:edited-and-resent")
        if kind == "conversation":
            if back3.conversation != body2:
                fails.append(oracle("C10:entity-edit-not-serialised:%s" % kind, "complete text message (seed %d): serialised, body changed to %r, serialised again: the payload carries %r"
                                    % (case["seed"], body2, back3.conversation)))
        else:
            field = [p for p, t in ps.flat_fields("message") if t == "sub:" + sub][0]
            d3 = _diff(sub, want_attrs, getattr(back3.message_attributes, field))
            if d3 and not (kind == "document" and d3[0].endswith("file_length")):
                fails.append(oracle("C10:entity-edit-not-serialised:%s" % kind, "complete %s message (seed %d): serialised, content edited in place, serialised again: field %s should be %r, the payload carries %r"
                                    % (kind, case["seed"], d3[0], d3[1], d3[2])))
    except Exception as e:
        fails.append(oracle("C10:entity-edit-raises:%s" % kind, "complete %s message (seed %d): editing and re-serialising raises %s: %s" % (kind, case["seed"], type(e).__name__, str(e)[:120])))
    # ---- the application changes a field THROUGH THE ENTITY (the entity classes offer their content as properties with setters: compose, upload,
    #      then `entity.url = ...; entity.media_key = ...`): what is set there is what the payload carries and what the peer's entity shows
    try:
        ent4 = cls(build_obj(sub, spec), meta) if kind != "conversation" else TextMessageProtocolEntity(body, meta)
        props = sorted(n for n in dir(type(ent4)) if isinstance(getattr(type(ent4), n, None), property) and getattr(type(ent4), n).fset is not None)
        r4 = random.Random(case["seed"] ^ 0x5e77e4)
        r4.shuffle(props)
        ftypes = {}
        if sub:
            for path_, t_ in ps.flat_fields(sub):
                ftypes.setdefault(path_.split(".")[-1], t_)
        for name in props:
            try:
                old = getattr(ent4, name)
            except Exception as e:
                # the entity offers this field of the content it was composed from, and reading it raises: the content cannot be read back (nor
                # set) through the entity
                chk.hit("entity:property-unreadable:%s.%s" % (type(ent4).__name__, name))
                fails.append(oracle("C10:entity-property-unreadable:%s.%s" % (type(ent4).__name__, name), "complete %s message (seed %d): reading the field %s of the entity "
                                    "raises %s: %s" % (kind, case["seed"], name, type(e).__name__, str(e)[:120])))
                break
            if isinstance(old, bool):
                continue
            if old is None:
                # a field the sender left unset and sets now: its type comes from the payload schema (same field name)
                old = {"bytes": b"", "str": "", "int": 0, "enum": 0, "float": 0.0}.get(ftypes.get(name))
                if old is None:
                    continue
            if isinstance(old, bytes):
                new = bytes(r4.randrange(1, 256) for _ in range(max(1, len(old)))) + b"\x01"
            elif isinstance(old, str):
                new = old + "-set%d" % r4.randrange(100)
            elif isinstance(old, int) and ftypes.get(name) in ("enum", "enum0"):
                new = 2 if old == 1 else 1          # (the values the payload's enumeration has)
            elif isinstance(old, float) or ftypes.get(name) == "float":
                new = float(old) + 0.25 + r4.randrange(5)
            elif isinstance(old, int):
                new = old + 1 + r4.randrange(5)
            else:
                continue
            try:
                setattr(ent4, name, new)
                now = getattr(ent4, name)
            except Exception as e:
                chk.hit("entity:property-unwritable:%s.%s" % (type(ent4).__name__, name))
                fails.append(oracle("C10:entity-property-unwritable:%s.%s" % (type(ent4).__name__, name), "complete %s message (seed %d): setting the field %s of the entity "
                                    "to %r raises %s: %s" % (kind, case["seed"], name, new, type(e).__name__, str(e)[:120])))
                break
            if now != new:
                fails.append(oracle("C10:entity-setter-lost:%s:%s" % (kind, name), "complete %s message (seed %d): %s set to %r through the entity; the entity itself then shows %r"
                                    % (kind, case["seed"], name, new, now)))
                break
            back4 = cls.fromProtocolTreeNode(ent4.toProtocolTreeNode())
            chk.hit("entity:set-through-entity")
            got = getattr(back4, name)
            if got != new and not (kind == "document" and name == "file_length"):
                fails.append(oracle("C10:entity-setter-not-serialised:%s:%s" % (kind, name), "complete %s message (seed %d): %s set to %r through the entity (was %r); after "
                                    "serialising and parsing the entity shows %r" % (kind, case["seed"], name, new, old, got)))
                break
    except Exception as e:
        fails.append(oracle("C10:entity-setter-raises:%s" % kind, "complete %s message (seed %d): setting a field through the entity and re-serialising raises %s: %s"
                            % (kind, case["seed"], type(e).__name__, str(e)[:120])))
    p1, p2 = node.getChild("proto"), node2.getChild("proto")
    if bytes(p1.getData()) != bytes(p2.getData()) or p1["mediatype"] != p2["mediatype"] or node["type"] != node2["type"]:
        if not (kind == "document"):
            fails.append(oracle("C10:entity-stanza-differs:%s" % kind, "complete %s message (seed %d): stanza -> entity -> stanza changes the payload or its media type" % (kind, case["seed"])))
    return fails
