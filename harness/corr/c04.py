"""C04  Encrypted transport — the real segments / noise / coder layers with consonance's real handshake, against a Noise
responder double (lib/noiseserver.py: XX, IK, XXfallback), with REAL threads (network thread, handshake workers, an
application sender) under the cooperative scheduler (lib/coop.py): queue get / put, lock acquire / release and socket
writes are the scheduling points, so each case fixes login variant, fragmentation of the server's bytes, the history of
cut-off attempts and the schedule.  The completed operations of every run are replayed on Model/Handshake.lean; the
property's clauses are evaluated on the real run."""
import random
import struct
import uuid

import os

import boot  # noqa: F401
from core import corr, oracle
from lib import coop, noiseserver

PID = "C04"
GEN = ["hscfg"]
LEAN_MODULES = ["YowsupVerif.Props.C04"]
RULE = ("login variant (XX first contact / IK resumed / IK answered with a new key -> XXfallback) x edge routing info on/off x passive flag x history of "
        "0-2 earlier attempts cut off (before the server answered / in the middle of the server's reply / after the handshake) x server reply intact or "
        "damaged x 0-4 server frames written together with the reply x 0-5 stanzas in each direction afterwards x fragmentation of all server bytes "
        "(chunk sizes 1..64 or whole) x schedule of network thread, handshake workers and an application sender chosen at random at every scheduling "
        "point.  distinct = distinct case.")
ASSUMPTIONS = ["the Noise responder double built on the client library's own primitives (dissononce) is a faithful server for the three patterns",
               "scheduling points: queue put / get, lock acquire / release, socket write (a thread switch elsewhere is equivalent to one at the next point)",
               "real sockets replaced by the bottom layer of the stack; the server's certificate is not validated by the client library (it only logs)"]

VARIANTS = ["XX", "IK", "XXfallback"]


def setup(chk):
    coop.install_noise()


def cases(chk):
    r = chk.rng
    corpus = [
        {"variant": "XX", "edge": False, "passive": False, "cuts": [], "corrupt": False, "immediate": 0, "down": 2, "up": 2, "chunk": 0, "seed": 1},
        {"variant": "IK", "edge": True, "passive": True, "cuts": [], "corrupt": False, "immediate": 3, "down": 3, "up": 1, "chunk": 1, "seed": 2},
        {"variant": "XXfallback", "edge": False, "passive": False, "cuts": ["before-answer"], "corrupt": False, "immediate": 0, "down": 2, "up": 2, "chunk": 7, "seed": 3},
        {"variant": "XX", "edge": False, "passive": False, "cuts": ["mid-answer", "before-answer"], "corrupt": False, "immediate": 0, "down": 1, "up": 1, "chunk": 5, "seed": 4},
        {"variant": "IK", "edge": False, "passive": False, "cuts": ["after-handshake"], "corrupt": False, "immediate": 2, "down": 2, "up": 2, "chunk": 3, "seed": 5},
        {"variant": "XX", "edge": False, "passive": False, "cuts": [], "corrupt": True, "immediate": 0, "down": 0, "up": 0, "chunk": 0, "seed": 6},
        {"variant": "IK", "edge": False, "passive": False, "cuts": ["before-answer"], "corrupt": True, "immediate": 0, "down": 0, "up": 0, "chunk": 2, "seed": 7},
    ]
    corpus += [
        {"variant": "XX", "edge": False, "passive": False, "cuts": ["closed-in-read"], "corrupt": False, "immediate": 0, "down": 2, "up": 1, "chunk": 0, "seed": 8},
        {"variant": "IK", "edge": False, "passive": True, "cuts": ["closed-in-read", "closed-in-read"], "corrupt": False, "immediate": 1, "down": 1, "up": 1, "chunk": 3, "seed": 9},
    ]
    corpus += [
        {"variant": "IK", "edge": False, "passive": False, "cuts": ["bad-answer"], "corrupt": False, "immediate": 0, "down": 1, "up": 1, "chunk": 0, "seed": 10 + i} for i in range(12)
    ] + [
        {"variant": "XX", "edge": False, "passive": True, "cuts": ["bad-answer", "bad-answer"], "corrupt": False, "immediate": 0, "down": 1, "up": 0, "chunk": 4, "seed": 30 + i} for i in range(6)
    ]
    corpus += [
        {"variant": "XX", "edge": False, "passive": False, "cuts": [], "corrupt": False, "immediate": 0, "down": 3, "up": 2, "chunk": 0, "seed": 40 + i, "big": b_}
        for i, b_ in enumerate([65535, 65536, (1 << 20) - 64, 1 << 20, (1 << 20) + 4096])
    ] + [{"variant": "IK", "edge": True, "passive": True, "cuts": ["after-handshake"], "corrupt": False, "immediate": 1, "down": 2, "up": 1, "chunk": 65536, "seed": 50, "big": (1 << 20) + 1}]
    for c in corpus:
        yield "login", c
    for v in VARIANTS:
        yield "login", {"variant": v, "edge": False, "passive": False, "cuts": [], "corrupt": False, "immediate": 0, "down": 1, "up": 1, "chunk": 0, "seed": 900 + len(v), "login": 1}
    # a frame that raced the end of the handshake and whose handling upward FAILS: the login succeeded all the same — no failure is reported,
    # nothing is torn down, every frame still arrives once and in order
    for i, imm in enumerate((1, 2, 3)):
        yield "login", {"variant": "IK", "edge": False, "passive": bool(i % 2), "cuts": [], "corrupt": False, "immediate": imm, "down": 2, "up": 1, "chunk": 0, "seed": 950 + i, "raise_imm": 1}
    # a reply that does not authenticate FOLLOWED by more bytes of the same dead session, then the next login
    for i in range(8):
        yield "login", {"variant": VARIANTS[i % len(VARIANTS)], "edge": False, "passive": bool(i % 2), "cuts": ["bad-answer"] * (1 + i % 2), "corrupt": False, "immediate": 0,
                        "down": 1, "up": 1, "chunk": [0, 5][i % 2], "seed": 950 + i, "extra": 1}
    # frames written together with the server's reply of a resumed login: the race between the end of the handshake and the network thread
    for i in range(chk.scale(40, 600)):
        yield "login", {"variant": "IK", "edge": False, "passive": r.random() < 0.5, "cuts": [], "corrupt": False, "immediate": r.randint(1, 4),
                        "down": r.randint(0, 2), "up": r.randint(0, 2), "chunk": r.choice([0, 0, 1, 16, 64]), "seed": r.randrange(1 << 30)}
    for _ in range(chk.scale(60, 1500)):
        v = r.choice(VARIANTS)
        yield "login", {"variant": v, "edge": r.random() < 0.3, "passive": r.random() < 0.4,
                        "cuts": [r.choice(["before-answer", "mid-answer", "after-handshake", "closed-in-read", "bad-answer"]) for _i in range(r.choice([0, 0, 1, 1, 2]))],
                        "corrupt": r.random() < 0.15, "immediate": r.choice([0, 0, 1, 2, 4]) if v == "IK" else 0,
                        "down": r.randint(0, 5), "up": r.randint(0, 5), "chunk": r.choice([0, 1, 2, 3, 7, 16, 64]), "seed": r.randrange(1 << 30), "vary": int(r.random() < 0.5),
                        "login": int(r.random() < 0.4), "extra": int(r.random() < 0.4)}
    # several logins on one stack with the settings changed in between: each login presents the settings in force THEN
    for i, cuts in enumerate((["after-handshake"], ["after-handshake", "after-handshake"], ["before-answer", "after-handshake"], ["closed-in-read"], ["bad-answer", "after-handshake"])):
        for passive in (False, True):
            yield "login", {"variant": "XX", "edge": False, "passive": passive, "cuts": cuts, "corrupt": False, "immediate": 0, "down": 1, "up": 1, "chunk": 0, "seed": 700 + i, "vary": 1}


def nontrivial(stream, case):
    return repr(sorted(case.items()))


def shrink(stream, case):
    if case["cuts"]:
        yield dict(case, cuts=case["cuts"][1:])
    for k in ("immediate", "down", "up"):
        if case[k]:
            yield dict(case, **{k: case[k] - 1})
    if case["chunk"]:
        yield dict(case, chunk=0)


class World(object):
    def __init__(self, case):
        from consonance.structs.keypair import KeyPair
        from consonance.structs.publickey import PublicKey
        from yowsup.config.v1.config import Config
        from yowsup.layers import YowLayer
        from yowsup.layers.coder import YowCoderLayer
        from yowsup.layers.noise.layer import YowNoiseLayer
        from yowsup.layers.noise.layer_noise_segments import YowNoiseSegmentsLayer
        from yowsup.profile.profile import YowProfile
        from yowsup.stacks import YowStack
        w = self
        self.case = case
        self.server_static = noiseserver.NoiseServer().s          # the server's long-term key pair
        self.old_static = noiseserver.NoiseServer().s             # a key the client may remember instead
        self.out = bytearray()          # bytes the client wrote on the current connection
        self.top_nodes = []
        self.top_events = []
        self.reentrant_disconnects = 0
        self.conn_no = lambda: 0
        from yowsup.layers import YowLayerEvent
        from yowsup.layers.network.layer import YowNetworkLayer

        class Bottom(YowLayer):
            def send(self, d):
                coop.point()
                w.out += bytes(d)
                coop.log("write")

            def receive(self, d):
                self.toUpper(d)

        class Top(YowLayer):
            def receive(self, d):
                w.top_nodes.append(d)
                coop.log(("deliver", d))
                if w.case.get("raise_imm") and hasattr(d, "getAttributeValue") and d["id"] == "imm0" and not getattr(w, "raised_imm", False):
                    # the application's handling of a frame that raced the end of the handshake FAILS (C12: the error goes to whoever called,
                    # here the thread that flushes the frames queued during the handshake; the session is established all the same)
                    w.raised_imm = True
                    raise ValueError("the application's callback raises on this stanza")
                if hasattr(d, "getAttributeValue") and str(d["id"] or "").startswith("dc"):
                    # what the auth layer and the network layer do for a <failure/> or a stream error, synchronously, while the segment
                    # layer is still inside its receive loop: DISCONNECT goes down, the network layer closes and the layer right above
                    # it is told DISCONNECTED at once
                    w.reentrant_disconnects += 1
                    self.getStack().emitEvent(YowLayerEvent(YowNetworkLayer.EVENT_STATE_DISCONNECTED, reason="closed by the stack"))

            def send(self, d):
                self.toLower(d)

            def onEvent(self, e):
                w.top_events.append(e.getName().split(".")[-1])
                return False
        self.bottom, self.top = Bottom(), Top()
        self.stack = YowStack((self.bottom, YowNoiseSegmentsLayer, YowNoiseLayer, YowCoderLayer, self.top), reversed=False)
        rs = None
        if case["variant"] == "IK":
            rs = PublicKey(bytes(self.server_static.public.data))
        elif case["variant"] == "XXfallback":
            rs = PublicKey(bytes(self.old_static.public.data))
        self.name = "c04-" + uuid.uuid4().hex
        self.config = Config(phone="4915177700%02d" % (case["seed"] % 100), cc=49, client_static_keypair=KeyPair.generate(), server_static_public=rs,
                             pushname="pn-%d" % (case["seed"] % 1000), edge_routing_info=b"\x08\x02\x08\x05" if case["edge"] else None,
                             # the account name the server assigned at registration may differ from the phone number typed in (Mexico, Argentina,
                             # Brazil: an extra digit): it is the configured account
                             login=("52155177%05d" % (case["seed"] % 100000)) if case.get("login") else None)
        self.stack.setProfile(YowProfile(self.name, self.config))
        self.noise = self.stack.getLayer(2)
        self.seg = self.stack.getLayer(1)


def encode_node(node):
    from yowsup.layers.coder.encoder import WriteEncoder
    from yowsup.layers.coder.tokendictionary import TokenDictionary
    return bytes(bytearray(WriteEncoder(TokenDictionary()).protocolTreeNodeToBytes(node)))


def run_case(chk, stream, case):
    from yowsup.layers import YowLayerEvent
    from yowsup.layers.auth.layer_authentication import YowAuthenticationProtocolLayer
    from yowsup.layers.network.layer import YowNetworkLayer
    from yowsup.profile.profile import YowProfile
    from yowsup.structs import ProtocolTreeNode
    fails = []
    r = random.Random(case["seed"])
    del coop.LOCKS[:]
    del coop.CoopQueue.instances[:]
    w = World(case)
    c = coop.Coop()
    w.conn_no = lambda: st["conn"]
    # the moment a disconnect takes effect in the noise layer — the replacement of its protocol object, stream and queue — is what the model's
    # `disconnect` action stands for (the layer may have to wait for a writer before it gets there: a scheduling point of its own)
    _orig_new = w.noise._new_noiseprotocol

    def _new_noiseprotocol_logged():
        coop.log(("disconnect", st["conn"]))
        return _orig_new()
    w.noise._new_noiseprotocol = _new_noiseprotocol_logged
    ctx = "case %s" % dict((k, v) for k, v in case.items())
    st = {"conn": 0, "server": None, "segs": {}, "done": False, "problem": None, "sent_frames": [], "hello_sent": False, "app_go": False, "app_done": False, "corrupt_conns": set(), "mark": (0, 0)}
    chk.hit("variant:" + case["variant"], "cuts:%d" % len(case["cuts"]), "corrupt:%s" % case["corrupt"])

    def chunks(data):
        n = case["chunk"]
        if not n:
            return [data] if data else []
        out = []
        i = 0
        while i < len(data):
            k = r.randint(1, n)
            out.append(data[i:i + k])
            i += k
        return out

    def wait(cond, what, limit=4000):
        for _ in range(limit):
            if cond():
                return True
            coop.point()
        st["problem"] = "waiting for %s: not reached after %d scheduling rounds (hangs)" % (what, limit)
        return False

    def connect(corrupt):
        st["conn"] += 1
        st["server"] = noiseserver.NoiseServer(static=w.server_static, corrupt_reply=corrupt)
        st["hello_sent"] = False
        del w.out[:]
        st["fed"] = 0
        coop.log(("connect", st["conn"]))
        # "presents the configured account, passive flag and client attributes": the configuration IN FORCE at this login — with "vary" the
        # application flips the passive flag and renames itself between the attempts
        st["passive_now"] = bool(case["passive"]) ^ (bool(case.get("vary")) and st["conn"] % 2 == 0)
        if case.get("vary"):
            w.config.pushname = "pn-%d-%d" % (case["seed"] % 1000, st["conn"])
        w.stack.emitEvent(YowLayerEvent(YowAuthenticationProtocolLayer.EVENT_AUTH, passive=st["passive_now"]))

    def pump():
        if len(w.out) > st["fed"]:
            st["server"].feed(bytes(w.out[st["fed"]:]))
            st["fed"] = len(w.out)

    def deliver(data):
        for ch in chunks(data):
            coop.point()
            w.bottom.receive(ch)

    def disconnect():
        w.stack.emitEvent(YowLayerEvent(YowNetworkLayer.EVENT_STATE_DISCONNECTED, reason="cut"))

    def network():
        try:
            for cut in case["cuts"]:
                connect(cut == "bad-answer")
                if cut == "bad-answer":
                    st["corrupt_conns"].add(st["conn"])
                if not wait(lambda: (pump(), st["server"].stage != "prologue" and st["server"].stage != "hello")[1] or st["server"].stage == "transport", "the client hello"):
                    return
                reply = st["server"].take_output()
                if cut == "bad-answer":
                    # the server's reply does not authenticate; the connection is lost while the handshake thread of this attempt may or
                    # may not have looked at it yet (the schedule decides) and the client logs in again
                    deliver(reply)
                    if case.get("extra"):
                        # the server, unaware that its reply will not authenticate, goes on writing: one more segment arrives before the connection is lost
                        junk = bytes(r.randrange(256) for _ in range(24 + r.randrange(40)))
                        try:
                            deliver(len(junk).to_bytes(3, "big") + junk)
                        except Exception:
                            pass        # a session that failed may refuse further input with an error to the reader (C12's subject); the connection goes down next
                    for _i in range(r.choice([0, 0, 1, 3, 10])):
                        coop.point()
                elif cut == "mid-answer":
                    w.bottom.receive(reply[:max(1, len(reply) // 2)])
                elif cut in ("after-handshake", "closed-in-read"):
                    deliver(reply)
                    if not wait(lambda: (pump(), st["server"].stage == "transport")[1] and w.noise._wa_noiseprotocol.state == "transport", "the first handshake to complete"):
                        return
                if cut == "closed-in-read":
                    # the server's last frame makes the stack close the connection while the segment layer is still in its loop, and
                    # the same network read carries the beginning of a further frame
                    srv0 = st["server"]
                    srv0.take_output()
                    srv0.send_frame(encode_node(ProtocolTreeNode("iq", {"id": "dc%d" % st["conn"], "type": "result"})))
                    srv0.send_frame(encode_node(ProtocolTreeNode("iq", {"id": "lost%d" % st["conn"], "type": "result"}, [ProtocolTreeNode("x", data=b"z" * 40)])))
                    data = srv0.take_output()
                    first = 3 + int.from_bytes(data[:3], "big")
                    n0 = w.reentrant_disconnects
                    coop.point()
                    w.bottom.receive(data[:first + r.randint(1, 9)])
                    if w.reentrant_disconnects == n0:
                        st["problem"] = "the closing frame did not reach the top of the stack"
                        return
                    continue
                disconnect()
            connect(case["corrupt"])
            st["mark"] = (len(w.top_nodes), len(w.top_events))
            if case["corrupt"]:
                st["corrupt_conns"].add(st["conn"])
            if not wait(lambda: (pump(), st["server"].stage not in ("prologue", "hello"))[1], "the client hello"):
                return
            srv = st["server"]
            if case["immediate"] and srv.stage == "transport" and not case["corrupt"]:
                for i in range(case["immediate"]):
                    node = ProtocolTreeNode("iq", {"id": "imm%d" % i, "type": "result"})
                    st["sent_frames"].append("imm%d" % i)
                    srv.send_frame(encode_node(node))
            deliver(srv.take_output())
            if case["corrupt"]:
                wait(lambda: "handshake_failed" in w.top_events or w.noise._wa_noiseprotocol.state == "error", "the failure report")
                return
            if not wait(lambda: (pump(), srv.stage == "transport")[1] and w.noise._wa_noiseprotocol.state == "transport", "the session to be established"):
                return
            st["app_go"] = True
            for i in range(case["down"]):
                # (case["big"]: the first server frame carries that many bytes — sizes around 2^16 and 2^20, where a length field read
                # with too few bits shows)
                node = ProtocolTreeNode("iq", {"id": "dn%d" % i, "type": "result"}, [ProtocolTreeNode("x", data=b"d" * (case.get("big", 0) if i == 0 and case.get("big") else i * 9))])
                st["sent_frames"].append("dn%d" % i)
                srv.send_frame(encode_node(node))
                if r.random() < 0.5:
                    deliver(srv.take_output())
            deliver(srv.take_output())
            wait(lambda: st["app_done"] and len(w.top_nodes) >= len(st["sent_frames"]), "all frames to arrive")
            pump()
        finally:
            st["done"] = True

    def app():
        while not st["app_go"]:
            if st["done"]:
                return
            coop.point()
        for i in range(case["up"]):
            w.top.send(ProtocolTreeNode("iq", {"id": "up%d" % i, "type": "get"}, [ProtocolTreeNode("y", data=b"u" * (case.get("big", 0) if i == 0 and case.get("big") else i * 5))]))
        st["app_done"] = True

    c.spawn(network)
    c.spawn(app)
    err = None
    try:
        c.run(coop.chooser(r), limit=400000)
    except coop.Deadlock as e:
        err = e
    # ------------------------------------------------------------------------------------------ the property on the real run
    for t in c.tasks:
        if t.exc is not None and not isinstance(t.exc, SystemExit):
            import traceback
            tb = "".join(traceback.format_exception(type(t.exc), t.exc, t.exc.__traceback__))
            own = t.idx < 2
            if case.get("raise_imm") and isinstance(t.exc, ValueError) and "the application's callback raises" in str(t.exc):
                continue        # the injected failure, reported to whoever handed the frame upward (C12: "the error is reported to the caller")
            if own or "MachineError" not in tb:
                fails.append(oracle("C04:thread-raised:%s" % type(t.exc).__name__, "%s: thread %d raised %r: %s" % (ctx, t.idx, t.exc, tb.strip().splitlines()[-1][:120])))
                return fails
    if err is not None and not st["done"]:
        fails.append(oracle("C04:deadlock", "%s: %s" % (ctx, err)))
        return fails
    if st["problem"]:
        fails.append(oracle("C04:hangs", "%s: %s (client state %s, server stage %s)" % (ctx, st["problem"], w.noise._wa_noiseprotocol.state, st["server"].stage if st["server"] else None)))
        return fails
    srv = st["server"]
    if case["corrupt"]:
        tags = [getattr(n, "tag", None) for n in w.top_nodes]
        if "failure" not in tags or "handshake_failed" not in w.top_events:
            fails.append(oracle("C04:failure-not-reported", "%s: the damaged server reply was not reported upward as a login failure (upward: %s, events %s)" % (ctx, tags, w.top_events)))
        return fails + replay_on_model(chk, c, w, st, ctx)
    if srv.errors:
        fails.append(oracle("C04:server-cannot-read-client", "%s: %s" % (ctx, srv.errors)))
        return fails
    late_nodes = [getattr(n, "tag", None) for n in w.top_nodes[st["mark"][0]:]]
    late_events = w.top_events[st["mark"][1]:]
    if "failure" in late_nodes or "handshake_failed" in late_events:
        fails.append(oracle("C04:spurious-login-failure", "%s: a login failure was reported during the last attempt, whose server reply authenticates (upward after the last connect: %s, events %s)"
                            % (ctx, late_nodes, late_events)))
    expected_variant = "IK" if ("after-handshake" in case["cuts"] or "closed-in-read" in case["cuts"]) else case["variant"]     # a completed handshake taught the client the server's key
    if srv.variant != expected_variant:
        fails.append(oracle("C04:wrong-handshake-variant", "%s: the server saw a %s handshake" % (ctx, srv.variant)))
    p = srv.client_payload
    want_user = int(w.config.login or w.config.phone)
    want_passive = st.get("passive_now", bool(case["passive"]))
    if p is None or p.username != want_user or bool(p.passive) != bool(want_passive) or p.push_name != w.config.pushname or not p.user_agent.device:
        fails.append(oracle("C04:wrong-client-payload", "%s: the server was presented username=%s passive=%s pushname=%r at login #%d; configured then: passive=%s pushname=%r"
                            % (ctx, getattr(p, "username", None), getattr(p, "passive", None), getattr(p, "push_name", None), st["conn"], want_passive, w.config.pushname)))
    if (srv.edge_info is not None) != bool(case["edge"]) or (case["edge"] and srv.edge_info != w.config.edge_routing_info):
        fails.append(oracle("C04:edge-routing-header", "%s: edge routing info at the server: %r" % (ctx, srv.edge_info)))
    stored = YowProfile(w.name).config
    stored_key = bytes(stored.server_static_public.data) if stored is not None and stored.server_static_public is not None else None
    if case["variant"] in ("XX", "XXfallback") and stored_key != srv.static_public():
        fails.append(oracle("C04:new-server-key-not-stored", "%s: the profile does not hold the server's key after the handshake" % ctx))
    got = [n["id"] for n in w.top_nodes if hasattr(n, "getAttributeValue") and n.tag != "failure" and not str(n["id"]).startswith("dc")]
    if got != st["sent_frames"]:
        fails.append(oracle("C04:server-frames-lost-or-reordered", "%s: the server sent %s, the stack delivered %s" % (ctx, st["sent_frames"], got)))
    from yowsup.layers.coder.decoder import ReadDecoder
    from yowsup.layers.coder.tokendictionary import TokenDictionary
    ups = []
    for data in srv.received:
        try:
            ups.append(ReadDecoder(TokenDictionary()).getProtocolTreeNode(bytearray(data))["id"])
        except Exception:
            ups.append("?")
    if ups != ["up%d" % i for i in range(case["up"])]:
        fails.append(oracle("C04:client-stanzas-lost-or-reordered", "%s: the application sent %d stanzas, the server decrypted %s" % (ctx, case["up"], ups)))
    return fails + replay_on_model(chk, c, w, st, ctx)


def replay_on_model(chk, c, w, st, ctx):
    """the completed operations of the real run, as actions of Model/Handshake.lean"""
    fails = []
    d = chk.driver
    d.ask("hs reset")
    flush_lock = w.noise._flush_lock if hasattr(w.noise, "_flush_lock") else None
    workers = {}          # task idx -> model worker index
    serial = [0]
    conn = [0]
    seen_hello = {}
    last = None
    net_pending_check = [False]

    def ask(line):
        out = d.ask("hs act " + line)
        return out
    seg_queues = set()
    nworkers = [0]

    def settle_net():
        for _ in range(400):
            if " idle=true" in d.ask("hs show"):
                return True
            d.ask("hs act net")
            if " idle=true" in d.ask("hs show"):
                return True
            for wi in range(nworkers[0]):
                d.ask("hs act worker %d" % wi)
        return False
    for idx, tag in c.trace:
        if not isinstance(tag, tuple):
            continue
        kind = tag[0]
        line = None
        if kind == "connect":
            conn[0] = tag[1]
            line = "connect"
        elif kind == "disconnect":
            line = "disconnect"
        elif kind == "put" and idx == 0:
            # a whole segment handed to the noise layer by the network thread
            serial[0] += 1
            k = "frame" if seen_hello.get(conn[0]) else "hello"
            seen_hello[conn[0]] = True
            good = 0 if (k == "hello" and conn[0] in st["corrupt_conns"]) else 1
            line = "arrive %d %s %d %d" % (conn[0], k, good, serial[0])
        elif kind == "get" and idx >= 2:
            line = "worker %d" % (idx - 2)
        elif kind == "deliver" and idx >= 2 and getattr(tag[1], "tag", None) == "failure":
            # the handshake thread reports the failed authentication: its `finishing` step happens now
            line = "worker %d" % (idx - 2)
        else:
            continue
        if not line.startswith("worker") and not settle_net():
            fails.append(corr("replay", "%s: the model's network thread does not come to rest before %s" % (ctx, line)))
            return fails
        out = ask(line)
        if os.environ.get("VERIF_DEBUG"):
            import sys as _sys
            _sys.stderr.write("REPLAY t%s %-28s -> %s | %s\n" % (idx, line, out, d.ask("hs show")))
        if line == "connect":
            nworkers[0] += 1
        if out in ("not-allowed", "bad-op"):
            fails.append(corr("replay", "%s: model refuses %s (%s); model state %s" % (ctx, line, out, d.ask("hs show"))))
            return fails
        last = out
    # let the model's threads run to rest and compare the outcome
    for _ in range(200):
        out = d.ask("hs show")
        if " rest=true" in out:
            break
        d.ask("hs act net")
        for wi in range(nworkers[0]):
            d.ask("hs act worker %d" % wi)
    out = d.ask("hs show")
    mstate = out.split(" ")[0].split("=")[1]
    mup = out.split(" up=")[1].split(" q=")[0].split()
    real_state = w.noise._wa_noiseprotocol.state
    mframes = [u for u in mup if u.startswith("f%d." % st["conn"])]
    rframes = [n for n in w.top_nodes if hasattr(n, "getAttributeValue") and n.tag != "failure" and not str(n["id"]).startswith("dc")]
    # failures reported upward, by attempt: the real stack's reports before / after the last connect against the model's failure<conn> entries
    rfail_late = sum(1 for n in w.top_nodes[st["mark"][0]:] if getattr(n, "tag", None) == "failure")
    rfail_early = sum(1 for n in w.top_nodes[:st["mark"][0]] if getattr(n, "tag", None) == "failure")
    mfail_late = sum(1 for u in mup if u == "failure%d" % st["conn"])
    mfail_early = sum(1 for u in mup if u.startswith("failure") and u != "failure%d" % st["conn"])
    if mstate != real_state or len(mframes) != len(rframes) or (rfail_late, rfail_early) != (mfail_late, mfail_early):
        fails.append(corr("outcome", "%s: impl state=%s frames=%d failures reported (earlier attempts, last attempt)=(%d, %d)   model %s"
                          % (ctx, real_state, len(rframes), rfail_early, rfail_late, out)))
    return fails
