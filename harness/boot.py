"""Environment bootstrap for every harness process.

Must be imported before anything from yowsup.  Installs two interpreter-compatibility
shims (DESIGN §5) in THIS PROCESS ONLY; nothing under /repo is changed:
  * six 1.10.0's `six.moves` meta-importer does not work on Python 3.12 -> protobuf 4.0.0rc2
    cannot be imported -> yowsup.stacks, protocol_messages, all axolotl layers un-importable.
  * consonance 0.1.5 calls random.randint(float, float), rejected by Python 3.12.
Also redirects XDG_CONFIG_HOME to a scratch directory and puts VERIF_REPO (default /repo)
first on sys.path so the working tree under test is what gets imported.
"""
import atexit
import os
import shutil
import sys
import tempfile
import types

REPO = os.environ.get("VERIF_REPO", "/repo")
VERIF = os.path.dirname(os.path.dirname(os.path.abspath(__file__)))

if REPO not in sys.path:
    sys.path.insert(0, REPO)
sys.dont_write_bytecode = True

_scratch = tempfile.mkdtemp(prefix="yowverif-")
os.environ["XDG_CONFIG_HOME"] = os.path.join(_scratch, "xdg")
os.environ["HOME"] = _scratch
os.makedirs(os.environ["XDG_CONFIG_HOME"], exist_ok=True)


def _cleanup():
    shutil.rmtree(_scratch, ignore_errors=True)


atexit.register(_cleanup)


def scratch_dir():
    return _scratch


def _install_six_moves():
    import six
    try:
        import six.moves  # noqa: F401
        from six.moves import range as _r  # noqa: F401
        return
    except Exception:
        pass
    import functools
    import io
    import itertools
    m = types.ModuleType("six.moves")
    m.range = range
    m.xrange = range
    m.zip = zip
    m.map = map
    m.filter = filter
    m.input = input
    m.reduce = functools.reduce
    m.zip_longest = itertools.zip_longest
    m.StringIO = io.StringIO
    m.__path__ = []
    sys.modules["six.moves"] = m
    six.moves = m


def _install_randint():
    try:
        import consonance.handshake as h
    except Exception:
        return
    import random as _random

    class _R(object):
        def __getattr__(self, name):
            return getattr(_random, name)

        @staticmethod
        def randint(a, b):
            return _random.randint(int(a), int(b))

    h.random = _R()


_install_six_moves()
import logging  # noqa: E402
logging.disable(logging.CRITICAL)
_install_randint()
