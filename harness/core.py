"""Shared machinery of every check: regenerate Gen/*.lean, build + audit the Lean theorems,
run the correspondence / property-oracle cases, decide the verdict, write evidence + replays.

A property module (harness/corr/cXX.py) provides:
    PID            "C05"
    GEN            list of generator module names under harness/gen (may be empty)
    LEAN_MODULES   Lean modules whose theorems are this property's obligations
    RULE           text: how cases are generated / what makes one non-trivial
    ASSUMPTIONS    list of strings (trusted base items specific to the property)
    setup(chk)     optional; called once per process before cases
    cases(chk)     generator of (stream, case) — case is JSON-serialisable
    run_case(chk, stream, case) -> list[Failure]
    shrink(stream, case)  optional generator of smaller cases
    nontrivial(stream, case) -> hashable key or None   optional
"""
import collections
import fcntl
import hashlib
import importlib
import json
import os
import random
import re
import subprocess
import sys
import time
import traceback

VERIF = os.path.dirname(os.path.dirname(os.path.abspath(__file__)))
LEAN = os.path.join(VERIF, "lean")
REPO = os.environ.get("VERIF_REPO", "/repo")
ALLOWED_AXIOMS = {"propext", "Classical.choice", "Quot.sound"}
FORBIDDEN = re.compile(r"\b(sorry|admit|native_decide|bv_decide|implemented_by)\b|^\s*axiom\s|\bunsafe\s|maxHeartbeats\s+0\b")

Failure = collections.namedtuple("Failure", "kind signature what")
# kind: "oracle"  – the property itself fails on the REAL code for this case (a violation)
#       "corr"    – model and implementation disagree on this case (correspondence broken)


def oracle(signature, what):
    return Failure("oracle", signature, what)


def corr(signature, what):
    return Failure("corr", signature, what)


LOG_MODES = ["module-warning", "module-debug", "module-critical", "module-info"]


class InfraError(Exception):
    pass


# --------------------------------------------------------------------------- driver

class Driver(object):
    def __init__(self):
        exe = os.path.join(LEAN, ".lake", "build", "bin", "yowdriver")
        if not os.path.exists(exe):
            raise InfraError("driver executable missing: %s (run setup)" % exe)
        self.p = subprocess.Popen([exe], stdin=subprocess.PIPE, stdout=subprocess.PIPE,
                                  bufsize=0)
        self.n = 0

    def ask(self, line):
        assert "\n" not in line
        self.p.stdin.write(line.encode("ascii") + b"\n")
        out = self.p.stdout.readline()
        if not out:
            raise InfraError("driver died on: %s" % line[:200])
        self.n += 1
        return out.decode("ascii").rstrip("\n")

    def close(self):
        try:
            self.p.stdin.close()
            self.p.wait(timeout=5)
        except Exception:
            self.p.kill()


def hexs(b):
    b = bytes(b)
    return b.hex() if b else "-"


# --------------------------------------------------------------------------- lean side

class LeanLock(object):
    def __enter__(self):
        os.makedirs(os.path.join(LEAN, ".lake"), exist_ok=True)
        self.f = open(os.path.join(LEAN, ".lake", "verif.lock"), "w")
        fcntl.flock(self.f, fcntl.LOCK_EX)
        return self

    def __exit__(self, *a):
        fcntl.flock(self.f, fcntl.LOCK_UN)
        self.f.close()


def strip_comments(src):
    out = []
    i, n, depth = 0, len(src), 0
    while i < n:
        if src.startswith("/-", i):
            depth += 1
            i += 2
        elif depth and src.startswith("-/", i):
            depth -= 1
            i += 2
        elif depth:
            if src[i] == "\n":
                out.append("\n")
            i += 1
        elif src.startswith("--", i):
            while i < n and src[i] != "\n":
                i += 1
        else:
            out.append(src[i])
            i += 1
    return "".join(out)


def lean_sources():
    res = []
    for root, _dirs, files in os.walk(os.path.join(LEAN, "YowsupVerif")):
        for f in files:
            if f.endswith(".lean"):
                res.append(os.path.join(root, f))
    res.append(os.path.join(LEAN, "Driver.lean"))
    return sorted(res)


def import_closure(modules):
    """source files of the given Lean modules and of everything of this project they import, transitively"""
    seen, todo = set(), list(modules)
    while todo:
        m = todo.pop()
        if m in seen or not m.startswith("YowsupVerif"):
            continue
        path = os.path.join(LEAN, *m.split(".")) + ".lean"
        if not os.path.exists(path):
            continue
        seen.add(m)
        for line in open(path):
            mm = re.match(r"\s*import\s+(\S+)", line)
            if mm:
                todo.append(mm.group(1))
    return [os.path.join(LEAN, *m.split(".")) + ".lean" for m in sorted(seen)]


def grep_forbidden(modules=None):
    hits = []
    for p in (import_closure(modules) if modules else lean_sources()):
        if p.endswith("Audit.lean"):
            continue
        src = strip_comments(open(p).read())
        for ln, line in enumerate(src.split("\n"), 1):
            if FORBIDDEN.search(line):
                hits.append("%s:%d: %s" % (os.path.relpath(p, LEAN), ln, line.strip()[:120]))
    return hits


def regenerate(names):
    """Run the translators; returns list of (name, ok, detail, changed)."""
    res = []
    for name in names:
        try:
            mod = importlib.import_module("gen." + name)
            text = mod.generate()
            path = os.path.join(LEAN, "YowsupVerif", "Gen", mod.LEAN_FILE)
            os.makedirs(os.path.dirname(path), exist_ok=True)
            old = open(path).read() if os.path.exists(path) else None
            changed = old != text
            if changed:
                with open(path, "w") as f:
                    f.write(text)
            res.append((name, True, hashlib.sha256(text.encode()).hexdigest()[:16], changed))
        except Exception as e:  # a source the translator cannot read any more
            res.append((name, False, "%s: %s" % (type(e).__name__, e), False))
    return res


def lake_build(targets):
    cmd = ["lake", "build"] + list(targets)
    p = subprocess.run(cmd, cwd=LEAN, stdout=subprocess.PIPE, stderr=subprocess.STDOUT, text=True)
    return p.returncode == 0, p.stdout


def theorem_at(path, line):
    name = None
    try:
        for ln, l in enumerate(open(path).read().split("\n"), 1):
            if ln > line:
                break
            m = re.match(r"\s*(?:theorem|lemma|def|example|instance)\s+([^\s:({\[]+)?", l)
            if m:
                name = m.group(1) or "example"
    except Exception:
        pass
    return name


def parse_build_errors(log):
    errs = []
    for m in re.finditer(r"^error: (\S+\.lean):(\d+):(\d+): (.*)$", log, re.M):
        path = os.path.join(LEAN, m.group(1))
        errs.append({"file": m.group(1), "line": int(m.group(2)),
                     "decl": theorem_at(path, int(m.group(2))), "msg": m.group(4)[:300]})
    return errs


def audit(modules):
    """Return {theorem: [axioms]} for every theorem declared in the given Lean modules."""
    d = os.path.join(LEAN, ".lake", "audit")
    os.makedirs(d, exist_ok=True)
    tag = hashlib.sha256(" ".join(modules).encode()).hexdigest()[:10]
    path = os.path.join(d, "Audit_%s_%d.lean" % (tag, os.getpid()))
    with open(path, "w") as f:
        f.write("import YowsupVerif.Audit\n")
        for m in modules:
            f.write("import %s\n" % m)
        for m in modules:
            f.write("#audit_module %s\n" % m)
    p = subprocess.run(["lake", "env", "lean", path], cwd=LEAN, stdout=subprocess.PIPE,
                       stderr=subprocess.STDOUT, text=True)
    os.unlink(path)
    res = {}
    for m in re.finditer(r"AUDIT (\S+) \[(.*?)\]", p.stdout):
        res[m.group(1)] = [a.strip() for a in m.group(2).split(",") if a.strip()]
    if p.returncode != 0 and not res:
        raise InfraError("audit failed:\n" + p.stdout[-2000:])
    return res


def leanchecker(modules):
    p = subprocess.run(["lake", "env", "leanchecker"] + list(modules), cwd=LEAN,
                       stdout=subprocess.PIPE, stderr=subprocess.STDOUT, text=True)
    return p.returncode == 0, p.stdout[-1500:]


# --------------------------------------------------------------------------- the check

class Check(object):
    def __init__(self, mod, tier, seed):
        self.mod = mod
        self.pid = mod.PID
        self.tier = tier
        self.seed = seed
        self.t0 = time.time()
        self.rng = random.Random("%s:%d" % (self.pid, seed))
        self.obligations = []      # dicts: name, ok, detail
        self.axioms_seen = set()
        self.failures = []         # (stream, case, Failure)
        self.evals = 0
        self.per_stream = collections.Counter()
        self.hits = collections.Counter()
        self.distinct = set()
        self.samples = []
        self.notes = []
        self._driver = None
        self.deadline = None

    # -- helpers for property modules
    @property
    def driver(self):
        if self._driver is None:
            self._driver = Driver()
        return self._driver

    def hit(self, *branches):
        for b in branches:
            self.hits[b] += 1

    def quick(self):
        return self.tier == "quick"

    def scale(self, q, t):
        return q if self.tier == "quick" else t

    def time_left(self):
        return self.deadline is None or time.time() < self.deadline

    # -- lean side
    def lean_phase(self):
        mod = self.mod
        with LeanLock():
            gens = regenerate(getattr(mod, "GEN", []))
            for name, ok, detail, _changed in gens:
                self.obligations.append({"name": "translate:" + name, "ok": ok, "detail": detail})
            ok, log = lake_build(list(mod.LEAN_MODULES) + ["yowdriver"])
            errs = [] if ok else parse_build_errors(log)
            if not ok and not errs:
                raise InfraError("lake build failed without a parsable error:\n" + log[-3000:])
            broken_decls = {}
            for e in errs:
                broken_decls.setdefault((e["file"], e["decl"]), e)
            self.build_ok = ok
            if ok:
                ax = audit(mod.LEAN_MODULES)
                for thm, axs in sorted(ax.items()):
                    bad = [a for a in axs if a not in ALLOWED_AXIOMS]
                    self.axioms_seen.update(axs)
                    self.obligations.append({"name": thm, "ok": not bad,
                                             "detail": "axioms: " + (", ".join(axs) or "none")})
                if not ax:
                    raise InfraError("audit found no theorem in %s" % (mod.LEAN_MODULES,))
            else:
                for (f, d), e in broken_decls.items():
                    self.obligations.append({"name": "%s:%s" % (f, d), "ok": False,
                                             "detail": "line %d: %s" % (e["line"], e["msg"])})
            hits = grep_forbidden(list(mod.LEAN_MODULES) + ["YowsupVerif.Drv." + x for x in ()])
            self.obligations.append({"name": "no sorry/admit/axiom/native_decide/bv_decide/implemented_by/unsafe in the Lean sources this property's theorems are built from",
                                     "ok": not hits, "detail": "; ".join(hits[:5])})
            if ok and self.tier == "thorough" and os.environ.get("VERIF_NO_LEANCHECKER") != "1":
                lok, lout = leanchecker(mod.LEAN_MODULES)
                self.obligations.append({"name": "leanchecker " + " ".join(mod.LEAN_MODULES),
                                         "ok": lok, "detail": "" if lok else lout})

    # -- case side
    def run_one(self, stream, case):
        try:
            from lib import logcfg
            mode = case.get("_log") if isinstance(case, dict) else None
            with logcfg.levels(mode):
                if mode:
                    self.hit("logging:" + mode)
                fs = self.mod.run_case(self, stream, case) or []
        except InfraError:
            raise
        except BaseException as e:
            if type(e).__name__ == "BlockedForever":
                # lib/tracked.py: the code under test tried to take a lock that is held and that nothing will ever release (operations are
                # issued one at a time in the checks that use tracked locks): a thread of the real program would hang here for ever
                frames = traceback.extract_tb(e.__traceback__)
                repo = os.path.realpath(os.environ.get("VERIF_REPO", "/repo"))
                inrepo = [f for f in frames if os.path.realpath(f.filename).startswith(repo + os.sep)]
                where = "%s:%s" % (os.path.relpath(os.path.realpath(inrepo[-1].filename), repo), inrepo[-1].name) if inrepo else "?"
                return [oracle("%s:blocks-forever@%s" % (self.pid, where), "stream %s, case %s: %s (in %s)" % (stream, json.dumps(case)[:300], e, where))]
            if not isinstance(e, Exception):
                raise
            tb = traceback.format_exc()
            # an exception raised INSIDE the code under test (innermost frame in the repository) on an input the harness built for it is
            # the code's behaviour, not a harness defect: it is reported with this input as the replay.  Anything raised by harness code
            # stays an infrastructure error.
            frames = traceback.extract_tb(e.__traceback__)
            repo = os.path.realpath(os.environ.get("VERIF_REPO", "/repo"))
            inner = frames[-1] if frames else None
            if inner is not None and not os.path.realpath(inner.filename).startswith(repo + os.sep):
                # raised inside a third-party library that the code under test called (the harness called into the repository, the repository
                # called the library with something the library refuses): still the code's behaviour — located at the repository's last frame
                here = os.path.realpath(os.path.dirname(os.path.abspath(__file__)))
                kinds = ["repo" if os.path.realpath(f.filename).startswith(repo + os.sep) else
                         "harness" if os.path.realpath(f.filename).startswith(here + os.sep) else "lib" for f in frames]
                last_h = max([i for i, k in enumerate(kinds) if k == "harness"] or [-1])
                after = kinds[last_h + 1:]
                if after and after[0] == "repo" and kinds[-1] == "lib":
                    inner = [f for f, k in zip(frames, kinds) if k == "repo"][-1]
            if inner is not None and os.path.realpath(inner.filename).startswith(repo + os.sep):
                where = "%s:%s" % (os.path.relpath(os.path.realpath(inner.filename), repo), inner.name)
                return [oracle("%s:code-under-test-raises:%s@%s" % (self.pid, type(e).__name__, where),
                               "stream %s, case %s: %s raised inside the library (%s line %d): %s — the check drives the library with inputs of the property's domain and "
                               "expects no exception here" % (stream, json.dumps(case)[:300], type(e).__name__, where, inner.lineno, str(e)[:200]))]
            raise InfraError("harness crashed on stream=%s case=%s\n%s" % (stream, json.dumps(case)[:500], tb))
        return fs

    def case_phase(self):
        mod = self.mod
        if hasattr(mod, "setup"):
            mod.setup(self)
        nt = getattr(mod, "nontrivial", None)
        for stream, case in mod.cases(self):
            self.evals += 1
            self.per_stream[stream] += 1
            key = nt(stream, case) if nt else json.dumps([stream, case], sort_keys=True)
            if key is not None:
                self.distinct.add(hashlib.sha1(repr(key).encode()).digest()[:8])
            if len(self.samples) < 6 and self.per_stream[stream] <= 2:
                self.samples.append({"stream": stream, "case": _clip(case)})
            if self.evals % 6 == 5 and isinstance(case, dict) and "_log" not in case and "loglevel" not in case:
                # the application's logging configuration is its own business (lib/logcfg.py): every sixth case runs with the library's loggers
                # at another level; the key travels with the case into the replay file
                case = dict(case, _log=LOG_MODES[(self.evals // 6) % len(LOG_MODES)])
            for f in self.run_one(stream, case):
                self.failures.append((stream, case, f))
            if len(self.failures) > 200:
                break

    # -- verdict
    def finish(self):
        known = load_known()
        pid = self.pid
        lines = []
        rc = 0
        broken = [o for o in self.obligations if not o["ok"]]
        by_sig = collections.OrderedDict()
        for stream, case, f in self.failures:
            by_sig.setdefault((f.kind, f.signature), (stream, case, f))
        new_oracle = []
        known_hit = collections.OrderedDict()
        corr_breaks = []
        for (kind, sig), (stream, case, f) in by_sig.items():
            if kind == "oracle":
                k = [e for e in known if e["property"] == pid and e["status"] == "known" and e["signature"] == sig]
                if k:
                    known_hit[sig] = (k[0], stream, case, f)
                else:
                    new_oracle.append((stream, case, f))
            else:
                corr_breaks.append((stream, case, f))
        for sig, (e, _s, _c, f) in known_hit.items():
            lines.append("KNOWN-FINDING: property=%s %s [%s]" % (pid, e["what"], sig))
        os.makedirs(os.path.join(VERIF, "replays"), exist_ok=True)
        nviol = 0
        for stream, case, f in new_oracle:
            stream, case, f = self.shrink(stream, case, f)
            path = self.write_replay("oracle", stream, case, f)
            lines.append("VIOLATION property=%s replay=%s" % (pid, path))
            lines.append("  what: %s [%s]" % (f.what[:400], f.signature))
            nviol += 1
            rc = 1
        if not new_oracle and (broken or corr_breaks):
            path = os.path.join("replays", "%s_unproved_%d.json" % (pid, self.seed))
            rep = {"property": pid, "kind": "no-failing-input-found", "seed": self.seed, "tier": self.tier,
                   "broken_obligations": broken,
                   "correspondence_breaks": [{"stream": s, "case": c, "signature": f.signature, "what": f.what}
                                             for s, c, f in corr_breaks[:10]]}
            with open(os.path.join(VERIF, path), "w") as fh:
                json.dump(rep, fh, indent=1)
            for o in broken[:5]:
                lines.append("  broken obligation: %s (%s)" % (o["name"], o["detail"][:300]))
            for s, c, f in corr_breaks[:5]:
                lines.append("  correspondence break: stream=%s %s [%s]" % (s, f.what[:300], f.signature))
            lines.append("VIOLATION property=%s replay=%s no-failing-input-found" % (pid, path))
            nviol += 1
            rc = 1
        elif new_oracle and (broken or corr_breaks):
            for o in broken[:5]:
                lines.append("  (also) broken obligation: %s (%s)" % (o["name"], o["detail"][:300]))
            for s, c, f in corr_breaks[:5]:
                lines.append("  (also) correspondence break: stream=%s %s [%s]" % (s, f.what[:300], f.signature))
        self.write_evidence(nviol, [s for s in known_hit], broken, corr_breaks)
        for l in lines:
            print(l)
        print("%s %s tier=%s seed=%d: obligations %d/%d, cases %d (distinct %d), known-findings %d, violations %d, %.1fs"
              % ("OK" if rc == 0 else "FAIL", pid, self.tier, self.seed,
                 len(self.obligations) - len(broken), len(self.obligations), self.evals, len(self.distinct),
                 len(known_hit), nviol, time.time() - self.t0))
        return rc

    def shrink(self, stream, case, f):
        sh = getattr(self.mod, "shrink", None)
        if not sh:
            return stream, case, f
        t_end = time.time() + 30
        progress = True
        while progress and time.time() < t_end:
            progress = False
            for cand in sh(stream, case):
                try:
                    fs = self.mod.run_case(self, stream, cand) or []
                except Exception:
                    continue
                same = [g for g in fs if g.kind == f.kind and g.signature == f.signature]
                if same:
                    case, f = cand, same[0]
                    progress = True
                    break
                if time.time() > t_end:
                    break
        return stream, case, f

    def write_replay(self, kind, stream, case, f):
        h = hashlib.sha1(json.dumps([stream, case], sort_keys=True).encode()).hexdigest()[:10]
        path = os.path.join("replays", "%s_%s.json" % (self.pid, h))
        with open(os.path.join(VERIF, path), "w") as fh:
            json.dump({"property": self.pid, "kind": kind, "stream": stream, "case": case,
                       "signature": f.signature, "what": f.what, "seed": self.seed, "tier": self.tier,
                       "replay_cmd": "./check %s --replay %s" % (self.pid, path)}, fh, indent=1)
        return path

    def write_evidence(self, nviol, known_sigs, broken, corr_breaks):
        mod = self.mod
        ob = len(self.obligations)
        ev = {
            "property_id": self.pid,
            "tier": self.tier,
            "seed": self.seed,
            "level": "proof",
            "coverage": {
                "obligations": ob,
                "discharged": ob - len(broken),
                "checker_cmd": "cd lean && lake build %s && lake env lean <audit file with #audit_module for each module>%s"
                               % (" ".join(mod.LEAN_MODULES), " && lake env leanchecker " + " ".join(mod.LEAN_MODULES) if self.tier == "thorough" else ""),
                "trusted_base": ["Lean 4.33.0 kernel", "axioms used by this property's theorems: " + (", ".join(sorted(self.axioms_seen)) or "none"),
                                 "harness/ translators + correspondence (Python)", "Lean compiler for the driver executable (correspondence only)"]
                                + list(getattr(mod, "ASSUMPTIONS", [])),
                "obligation_list": self.obligations,
                "evaluations": self.evals,
                "distinct_nontrivial": len(self.distinct),
                "rule": mod.RULE,
                "samples": self.samples[:6] or [{"note": "no cases"}],
                "per_stream": dict(self.per_stream),
                "input_distribution": dict(sorted(self.hits.items())),
                "correspondence_breaks": len(corr_breaks),
                "model_driver_lines": self._driver.n if self._driver else 0,
                "known_findings_hit": known_sigs,
                "exhaustive": bool(getattr(mod, "EXHAUSTIVE", {}).get(self.tier, False)),
            },
            "assumptions": list(getattr(mod, "ASSUMPTIONS", [])),
            "wall_s": round(time.time() - self.t0, 2),
            "violations": nviol,
        }
        if self.notes:
            ev["coverage"]["notes"] = self.notes
        os.makedirs(os.path.join(VERIF, "evidence"), exist_ok=True)
        with open(os.path.join(VERIF, "evidence", "%s.json" % self.pid), "w") as fh:
            json.dump(ev, fh, indent=1, default=str)


def _clip(x, n=400):
    s = json.dumps(x, default=str)
    if len(s) <= n:
        return x
    return s[:n] + "…"


def load_known():
    p = os.path.join(VERIF, "known_findings.json")
    if not os.path.exists(p):
        return []
    return json.load(open(p))["findings"]


def main(argv):
    import argparse
    ap = argparse.ArgumentParser()
    ap.add_argument("pid")
    ap.add_argument("--tier", default=os.environ.get("VERIF_TIER", "quick"), choices=["quick", "thorough"])
    ap.add_argument("--replay")
    ap.add_argument("--no-lean", action="store_true", help="(debug) skip the Lean phase")
    a = ap.parse_args(argv)
    seed = int(os.environ.get("VERIF_SEED", "0") or 0)
    try:
        mod = importlib.import_module("corr." + a.pid.lower())
    except ImportError as e:
        print("unknown property %s (%s)" % (a.pid, e))
        return 2
    chk = Check(mod, a.tier, seed)
    try:
        if a.replay:
            rp = a.replay if os.path.isabs(a.replay) else os.path.join(VERIF, a.replay)
            rep = json.load(open(rp))
            if rep.get("kind") == "no-failing-input-found":
                print("replay names broken obligations / correspondence, no failing input:")
                print(json.dumps(rep, indent=1)[:3000])
                chk.lean_phase()
                for cb in rep.get("correspondence_breaks", []):
                    if hasattr(mod, "setup") and not getattr(chk, "_setup_done", False):
                        mod.setup(chk)
                        chk._setup_done = True
                    for f in chk.run_one(cb["stream"], cb["case"]):
                        chk.failures.append((cb["stream"], cb["case"], f))
                chk.evals = max(1, len(rep.get("correspondence_breaks", [])))
                return chk.finish()
            if hasattr(mod, "setup"):
                mod.setup(chk)
            fs = chk.run_one(rep["stream"], rep["case"])
            for f in fs:
                print("%s: %s [%s]" % (f.kind, f.what, f.signature))
            known = load_known()
            bad = [f for f in fs if not (f.kind == "oracle" and any(
                e["property"] == chk.pid and e["status"] == "known" and e["signature"] == f.signature for e in known))]
            if bad:
                print("VIOLATION property=%s replay=%s" % (chk.pid, a.replay))
                return 1
            print("replay: no unlisted failure")
            return 0
        if not a.no_lean:
            chk.lean_phase()
        chk.case_phase()
        return chk.finish()
    except InfraError as e:
        print("INFRASTRUCTURE ERROR (not a verdict): %s" % e)
        return 2
    finally:
        if chk._driver:
            chk._driver.close()
