"""Recording layers and small helpers to put real yowsup layers into a real YowStack."""
import ast
import os

import boot  # noqa: F401
from yowsup.layers import YowLayer
from yowsup.stacks import YowStack


class Probe(YowLayer):
    """Records everything it sees; passes nothing on unless asked to."""

    def __init__(self, name="probe", forward=False):
        super(Probe, self).__init__()
        self.name = name
        self.forward = forward
        self.received = []   # data coming from below
        self.sent = []       # data coming from above
        self.events = []

    def receive(self, data):
        self.received.append(data)
        if self.forward:
            self.toUpper(data)

    def send(self, data):
        self.sent.append(data)
        if self.forward:
            self.toLower(data)

    def onEvent(self, ev):
        self.events.append(ev)
        return False

    def __str__(self):
        return "Probe(%s)" % self.name


def sandwich(*middle, **kw):
    """[bottom probe, *middle layers, top probe] in a real YowStack (bottom first)."""
    bottom, top = Probe("bottom"), Probe("top")
    props = kw.get("props") or {}
    stack = YowStack((bottom,) + tuple(middle) + (top,), reversed=False, props=props)
    return stack, bottom, top


def harvest_ints(relpaths):
    """All integer literals in the CURRENT source of the given repo files (generator hints only)."""
    out = set()
    for rp in relpaths:
        p = os.path.join(boot.REPO, rp)
        try:
            tree = ast.parse(open(p).read())
        except Exception:
            continue
        for n in ast.walk(tree):
            if isinstance(n, ast.Constant) and isinstance(n.value, int) and not isinstance(n.value, bool):
                out.add(n.value)
            elif isinstance(n, ast.BinOp):
                v = _fold(n)            # constants written as expressions: 64 * 1024, 1 << 24, 2 ** 16 - 1
                if v is not None and abs(v) < 1 << 40:
                    out.add(v)
    return out


def _fold(n):
    if isinstance(n, ast.Constant) and isinstance(n.value, int) and not isinstance(n.value, bool):
        return n.value
    if isinstance(n, ast.BinOp):
        a, b = _fold(n.left), _fold(n.right)
        if a is None or b is None:
            return None
        try:
            if isinstance(n.op, ast.Mult):
                return a * b
            if isinstance(n.op, ast.Add):
                return a + b
            if isinstance(n.op, ast.Sub):
                return a - b
            if isinstance(n.op, ast.LShift) and 0 <= b < 64:
                return a << b
            if isinstance(n.op, ast.Pow) and 0 <= b < 64 and abs(a) < 1 << 16:
                return a ** b
            if isinstance(n.op, ast.FloorDiv) and b:
                return a // b
        except Exception:
            return None
    return None


def harvest_strs(relpaths):
    out = set()
    for rp in relpaths:
        p = os.path.join(boot.REPO, rp)
        try:
            tree = ast.parse(open(p).read())
        except Exception:
            continue
        for n in ast.walk(tree):
            if isinstance(n, ast.Constant) and isinstance(n.value, str):
                out.add(n.value)
    return out
