"""Multi-client simulation: N real client stacks (network layer with a dispatcher double, the real coder layer,
axolotl control / send / receive layers, every protocol layer, an application layer) against one in-process
server double (key directory, key requests, message routing incl. group fan-out, receipts, acks, offline
queues, fault injection).  Everything is single-threaded; the harness chooses the schedule.

The wire between a client and the server carries the *bytes* produced by the real WriteEncoder (the noise and
segment layers, which would only wrap them, are left out: C04/C11/C12 cover those)."""
import collections
import contextlib
import io
import os
import uuid

import boot  # noqa: F401

S_WHATSAPP = "s.whatsapp.net"


def N(*a, **k):
    from yowsup.structs import ProtocolTreeNode
    return ProtocolTreeNode(*a, **k)


def clone(node):
    from yowsup.structs import ProtocolTreeNode
    return ProtocolTreeNode(node.tag, dict(node.attributes), [clone(c) for c in node.getAllChildren()], node.getData())


def node_bytes(node):
    """every byte string that occurs in a stanza (tag, attribute keys/values, data), recursively"""
    out = []

    def b(x):
        if x is None:
            return
        out.append(x.encode("utf-8", "surrogatepass") if isinstance(x, str) else bytes(x))
    b(node.tag)
    for k, v in node.attributes.items():
        b(k)
        b(v)
    b(node.getData())
    for c in node.getAllChildren():
        out.extend(node_bytes(c))
    return out


class SimDispatcher(object):
    """dispatcher double bound over AsyncoreConnectionDispatcher: contract as in C16"""
    server = None

    def __init__(self, callbacks):
        self.connectionCallbacks = callbacks
        self.open = False
        self._connected = False

    def connect(self, host):
        self.open = True
        self.connectionCallbacks.onConnecting()
        SimDispatcher.server.on_connect_request(self)

    def handle_connect(self):
        if self.open and not self._connected:
            self._connected = True
            self.connectionCallbacks.onConnected()

    def handle_close(self):
        was = self.open
        self.open = False
        self._connected = False
        if was:
            SimDispatcher.server.on_closed(self)
        self.connectionCallbacks.onDisconnected()

    def disconnect(self):
        self.handle_close()

    def sendData(self, data):
        if self._connected:
            SimDispatcher.server.on_data(self, bytes(data))


def drain_detached():
    from yowsup.stacks import YowStack
    q = YowStack._YowStack__detachedQueue
    n = 0
    while True:
        try:
            cb = q.get(False)
        except Exception:
            return n
        cb()
        n += 1


def make_app_layer():
    from yowsup.layers.interface import YowInterfaceLayer, ProtocolEntityCallback

    class App(YowInterfaceLayer):
        def __init__(self):
            super(App, self).__init__()
            self.messages = []      # entities
            self.receipts = []
            self.acks = []
            self.others = []
            self.auto_receipt = True

        @ProtocolEntityCallback("message")
        def on_message(self, e):
            self.messages.append(e)
            if self.auto_receipt:
                self.toLower(e.ack())

        @ProtocolEntityCallback("receipt")
        def on_receipt(self, e):
            self.receipts.append(e)
            self.toLower(e.ack())

        @ProtocolEntityCallback("ack")
        def on_ack(self, e):
            self.acks.append(e)

        @ProtocolEntityCallback("success")
        def on_success(self, e):
            self.others.append(e)

        @ProtocolEntityCallback("notification")
        def on_notification(self, e):
            self.others.append(e)
            self.toLower(e.ack())

        @ProtocolEntityCallback("iq")
        def on_iq(self, e):
            self.others.append(e)

    return App


class Client(object):
    """one account: a profile on disk and the current process (a real stack)"""

    def __init__(self, server, phone, autotrust=False, name=None):
        from yowsup.config.v1.config import Config
        from consonance.structs.keypair import KeyPair
        self.server = server
        self.phone = phone
        self.jid = "%s@%s" % (phone, S_WHATSAPP)
        self.name = name or ("sim-%s-%s" % (phone, uuid.uuid4().hex[:8]))
        self.config = Config(phone=phone, cc=int(phone[:2]), client_static_keypair=KeyPair.generate())
        self.autotrust = autotrust
        self.generation = 0
        self.history = []          # (generation, kind, entity) of everything the application saw, across restarts
        self.boot_process()

    # -- process ---------------------------------------------------------------------------------------------
    def boot_process(self):
        from yowsup.layers import YowParallelLayer
        from yowsup.layers.axolotl import AxolotlControlLayer, AxolotlSendLayer, AxolotlReceivelayer
        from yowsup.layers.axolotl.props import PROP_IDENTITY_AUTOTRUST
        from yowsup.layers.coder import YowCoderLayer
        from yowsup.layers.network import YowNetworkLayer
        from yowsup.layers.protocol_iq import YowIqProtocolLayer
        from yowsup.profile.profile import YowProfile
        from yowsup.stacks import YowStack, YowStackBuilder
        self.generation += 1
        self.App = make_app_layer()
        layers = (YowNetworkLayer, YowCoderLayer, AxolotlControlLayer,
                  YowParallelLayer((AxolotlSendLayer, AxolotlReceivelayer)),
                  YowParallelLayer(YowStackBuilder.getProtocolLayers()), self.App)
        self.stack = YowStack(layers, reversed=False)
        self.stack.setProfile(YowProfile(self.name, self.config))
        self.stack.setProp(YowNetworkLayer.PROP_ENDPOINT, ("e1.whatsapp.net", 443))
        self.stack.setProp(YowIqProtocolLayer.PROP_PING_INTERVAL, 0)
        self.stack.setProp(PROP_IDENTITY_AUTOTRUST, self.autotrust)
        self.net = self.stack.getLayer(0)
        self.net._sim_client = self
        self.control = self.stack.getLayer(2)
        par = self.stack.getLayer(3)
        self.sendlayer, self.recvlayer = par.sublayers[0], par.sublayers[1]
        self.app = self.stack.getLayer(5)
        self.raised = []

    def kill_process(self):
        """the process dies: the socket closes, nothing else runs"""
        d = getattr(self.net, "_dispatcher", None)
        self._collect()
        if d is not None and d.open:
            d.open = False
            d._connected = False
            self.server.on_closed(d)
        # the process is gone: its database connection with it — whatever it had not committed is lost
        try:
            store = self.stack.getProp("profile").axolotl_manager._store
            store.identityKeyStore.dbConn.close()
        except Exception:
            pass
        self.stack = None

    def restart(self):
        self.kill_process()
        self.boot_process()

    def set_autotrust(self, v):
        from yowsup.layers.axolotl.props import PROP_IDENTITY_AUTOTRUST
        self.autotrust = v
        self.stack.setProp(PROP_IDENTITY_AUTOTRUST, v)

    def connect(self):
        from yowsup.layers import YowLayerEvent
        from yowsup.layers.network import YowNetworkLayer
        self.call(lambda: self.stack.broadcastEvent(YowLayerEvent(YowNetworkLayer.EVENT_STATE_CONNECT)))

    def call(self, fn):
        """run client code; exceptions are recorded (they would kill the thread that delivered the stanza)"""
        sink = io.StringIO()
        _GUARD["n"] = 0
        try:
            with contextlib.redirect_stdout(sink):
                r = fn()
                drain_detached()
                return r
        except Exception as e:  # noqa
            import traceback
            self.raised.append((e, traceback.format_exc()))
            self.server.raised.append((self.jid, e, traceback.format_exc()))
            return None
        finally:
            if self.stack is not None:
                self._collect()

    def _collect(self):
        app = self.app
        for kind, lst in (("message", app.messages), ("receipt", app.receipts), ("ack", app.acks), ("other", app.others)):
            while lst:
                self.history.append((self.generation, kind, lst.pop(0)))

    def send_entity(self, entity):
        return self.call(lambda: self.app.toLower(entity))

    # -- inspection -------------------------------------------------------------------------------------------
    def dbpath(self):
        return os.path.join(os.environ["XDG_CONFIG_HOME"], "yowsup", self.name, "axolotl.db")

    def stored_identity(self, phone):
        import sqlite3
        c = sqlite3.connect(self.dbpath())
        try:
            r = c.execute("SELECT public_key FROM identities WHERE recipient_id = ?", (int(phone),)).fetchone()
        finally:
            c.close()
        return bytes(r[0]) if r else None

    def own_identity(self):
        import sqlite3
        c = sqlite3.connect(self.dbpath())
        try:
            r = c.execute("SELECT public_key FROM identities WHERE recipient_id = -1").fetchone()
        finally:
            c.close()
        return bytes(r[0]) if r else None

    def has_session(self, phone):
        import sqlite3
        c = sqlite3.connect(self.dbpath())
        try:
            r = c.execute("SELECT count(*) FROM sessions WHERE recipient_id = ?", (int(phone),)).fetchone()
        finally:
            c.close()
        return bool(r and r[0])

    def seen(self, kind):
        self._collect() if self.stack is not None else None
        return [e for (_g, k, e) in self.history if k == kind]


class Conn(object):
    def __init__(self, disp, client):
        self.disp = disp
        self.client = client
        self.authed = False
        self.inbound = collections.deque()     # decoded stanzas sent by the client, not yet processed
        self.pending_connect = True


class EndlessHandling(Exception):
    """one stanza delivered to a client made its receive layer handle encrypted stanzas more than 400 times: the real client would never
    come back from that delivery (stopped by the harness so that the check can report it)"""


_GUARD = {"n": 0}


def _install_guard():
    from yowsup.layers.axolotl import AxolotlReceivelayer
    if getattr(AxolotlReceivelayer.handleEncMessage, "_verif_guard", False):
        return
    orig = AxolotlReceivelayer.handleEncMessage

    def guarded(self, node):
        _GUARD["n"] += 1
        if _GUARD["n"] > 400:
            raise EndlessHandling("stanza %s from %s handled again and again inside one delivery" % (node["id"], node["from"]))
        return orig(self, node)
    guarded._verif_guard = True
    AxolotlReceivelayer.handleEncMessage = guarded


REGIDS = [0x1abcdef, 0x5bcdef01, 0xabc, 0x3ffc, 0x7, 0x12345, 0x7ffffffe, 0x100000, 0x10, 0xfffffff, 0x2b67]
_REGID_NEXT = [0]


def _install_regids():
    """the registration id of an account is drawn when its key store is created; the accounts of the simulation get ids of every hex width in
    turn (1 to 8 digits, odd and even) instead of whatever the generator gives: what is built from the id (retry receipts, key uploads) must
    work for all of them"""
    import yowsup.axolotl.store.sqlite.liteidentitykeystore as LI
    if getattr(LI.KeyHelper, "_verif_regids", False):
        return
    real = LI.KeyHelper

    class KH(object):
        _verif_regids = True

        @staticmethod
        def generateRegistrationId(*a, **kw):
            v = REGIDS[_REGID_NEXT[0] % len(REGIDS)]
            _REGID_NEXT[0] += 1
            return v

        def __getattr__(self, n):
            return getattr(real, n)
    LI.KeyHelper = KH()


class Server(object):
    """the common server.  Queues: per connection `inbound` (FIFO); per account `outbound` (FIFO, survives
    connections = offline storage).  `enabled()` lists what the scheduler may do next; `fire(action)` does it."""

    def __init__(self, rng, low_water=2):
        from yowsup.layers.coder.decoder import ReadDecoder
        from yowsup.layers.coder.encoder import WriteEncoder
        from yowsup.layers.coder.tokendictionary import TokenDictionary
        self.rng = rng
        self.dec = ReadDecoder(TokenDictionary())
        self.enc = WriteEncoder(TokenDictionary())
        self.clients = {}          # jid -> Client
        self.conns = {}            # jid -> Conn (current)
        self.outbound = collections.defaultdict(collections.deque)   # jid -> stanzas (node, meta)
        self.directory = {}        # jid -> {"identity","registration","type","skey":(id,val,sig),"keys":[(id,val)]}
        self.groups = {}           # gjid -> [jids]
        self.wire = []             # (jid, "c2s"|"s2c", node)
        self.raised = []
        self.low_water = low_water
        self.t = 1500000000
        self.faults = {}           # (msgid, recipient jid) -> set of {"dup", "corrupt"}
        self.fault_log = []
        self.sid = 0
        self.asked_keys = set()
        self.served = []           # (requester, target, identity) key bundles handed out
        SimDispatcher.server = self

    def install(self):
        _install_guard()
        _install_regids()
        import yowsup.axolotl.manager as mgr
        import yowsup.layers.network.layer as nl
        nl.AsyncoreConnectionDispatcher = SimDispatcher
        SimDispatcher.server = self
        mgr.random = self.pad_source        # the manager's random padding lengths come from the case's PRNG / script
        self.pad_script = []                # forced values for the next randint calls
        self.pad_log = []

    @property
    def pad_source(self):
        srv = self

        class _R(object):
            def randint(self, a, b):
                v = srv.pad_script.pop(0) if srv.pad_script else srv.rng.randint(a, b)
                srv.pad_log.append(v)
                return v
        return _R()

    def add_client(self, client):
        self.clients[client.jid] = client

    # -- dispatcher side -----------------------------------------------------------------------------------
    def _client_of(self, disp):
        return disp.connectionCallbacks._sim_client

    def on_connect_request(self, disp):
        c = self._client_of(disp)
        self.conns[c.jid] = Conn(disp, c)

    def on_closed(self, disp):
        c = self._client_of(disp)
        conn = self.conns.get(c.jid)
        if conn is not None and conn.disp is disp:
            del self.conns[c.jid]       # stanzas it sent but the server had not read yet are lost with it

    def on_data(self, disp, data):
        c = self._client_of(disp)
        conn = self.conns.get(c.jid)
        node = self.dec.getProtocolTreeNode(bytearray(data))
        self.wire.append((c.jid, "c2s", node))
        if conn is not None and conn.disp is disp:
            conn.inbound.append(node)

    # -- scheduling --------------------------------------------------------------------------------------------
    def enabled(self):
        acts = []
        for jid, conn in sorted(self.conns.items()):
            if conn.pending_connect:
                acts.append(("accept", jid))
            elif not conn.authed:
                acts.append(("success", jid))
            else:
                if conn.inbound:
                    acts.append(("process", jid))
                if self.outbound[jid]:
                    acts.append(("deliver", jid))
        return acts

    def fire(self, act, fault=None):
        kind, jid = act[0], act[1]
        conn = self.conns[jid]
        if kind == "accept":
            conn.pending_connect = False
            conn.client.call(conn.disp.handle_connect)
        elif kind == "success":
            conn.authed = True
            self._to_client(conn, N("success", {"t": str(self.t), "props": "4", "creation": "1400000000", "location": "frc3"}))
        elif kind == "process":
            self.process(jid, conn.inbound.popleft())
        elif kind == "deliver":
            node, meta = self.outbound[jid][0]
            if fault == "dup" and node.tag == "message":
                self.fault_log.append(("dup", node["id"], jid))
                self._to_client(conn, clone(node))          # delivered now, and once more later
                return
            self.outbound[jid].popleft()
            if fault in ("corrupt", "corrupt-first") and node.tag == "message":
                self.fault_log.append((fault, node["id"], jid))
                node = self.corrupted(node, first=(fault == "corrupt-first"))
            self._to_client(conn, node)

    def run(self, choose=None, limit=10000):
        """fire enabled actions until none is left"""
        n = 0
        while n < limit:
            acts = self.enabled()
            if not acts:
                return n
            act = choose(acts) if choose else acts[0]
            self.fire(act)
            n += 1
        raise RuntimeError("server: no quiescence after %d actions" % limit)

    def _to_client(self, conn, node):
        self.wire.append((conn.client.jid, "s2c", node))
        data = bytes(bytearray(self.enc.protocolTreeNodeToBytes(node)))
        disp = conn.disp
        conn.client.call(lambda: disp.connectionCallbacks.onRecvData(data) if disp._connected else None)

    def push(self, jid, node, **meta):
        self.outbound[jid].append((node, meta))

    # -- stanza processing ------------------------------------------------------------------------------------
    def process(self, jid, node):
        self.t += 1
        tag = node.tag
        if tag == "iq":
            return self.process_iq(jid, node)
        if tag == "message":
            return self.process_message(jid, node)
        if tag == "receipt":
            return self.process_receipt(jid, node)
        if tag == "ack":
            return None
        if tag == "presence":
            return None
        return None

    def process_iq(self, jid, node):
        xmlns = node["xmlns"]
        if xmlns == "encrypt" and node["type"] == "set" and node.getChild("list") is not None:
            keys = [(bytes(k.getChild("id").getData()), bytes(k.getChild("value").getData())) for k in node.getChild("list").getAllChildren("key")]
            sk = node.getChild("skey")
            entry = self.directory.get(jid)
            ident = bytes(node.getChild("identity").getData())
            if entry is None or entry["identity"] != ident:
                entry = {"keys": []}
            entry.update({"identity": ident, "registration": bytes(node.getChild("registration").getData()),
                          "type": bytes(node.getChild("type").getData()),
                          "skey": tuple(bytes(sk.getChild(x).getData()) for x in ("id", "value", "signature"))})
            have = set(k for k, _ in entry["keys"])
            entry["keys"] = [kv for kv in entry["keys"] if kv[0] not in set(k for k, _ in keys)] + keys
            self.directory[jid] = entry
            self.asked_keys.discard(jid)
            return self.push(jid, N("iq", {"id": node["id"], "type": "result", "from": S_WHATSAPP}))
        if xmlns == "encrypt" and node["type"] == "get" and node.getChild("key") is not None:
            users = []
            for u in node.getChild("key").getAllChildren("user"):
                target = u["jid"]
                entry = self.directory.get(target)
                if entry is None:
                    continue
                ch = [N("registration", data=entry["registration"]), N("type", data=entry["type"]),
                      N("identity", data=entry["identity"]),
                      N("skey", children=[N("id", data=entry["skey"][0]), N("value", data=entry["skey"][1]), N("signature", data=entry["skey"][2])])]
                if entry["keys"]:
                    kid, kval = entry["keys"].pop(0)
                    ch.append(N("key", children=[N("id", data=kid), N("value", data=kval)]))
                users.append(N("user", {"jid": target}, ch))
                self.served.append((jid, target, entry["identity"]))
                if len(entry["keys"]) <= self.low_water and target not in self.asked_keys:
                    self.asked_keys.add(target)
                    self.sid += 1
                    self.push(target, N("notification", {"id": "srv-n%d" % self.sid, "from": S_WHATSAPP, "type": "encrypt", "t": str(self.t)},
                                        [N("count", {"value": str(len(entry["keys"]))})]))
            return self.push(jid, N("iq", {"id": node["id"], "type": "result", "from": S_WHATSAPP}, [N("list", children=users)]))
        if xmlns == "w:g2" and node["type"] == "get" and node["to"] in self.groups:
            g = node["to"]
            members = self.groups[g]
            grp = N("group", {"id": g.split("@")[0], "subject": "grp", "creation": "1400000000", "creator": members[0], "s_t": "1400000000", "s_o": members[0]},
                    [N("participant", {"jid": m, "type": "admin"} if i == 0 else {"jid": m}) for i, m in enumerate(members)])
            return self.push(jid, N("iq", {"id": node["id"], "type": "result", "from": g}, [grp]))
        # anything else: plain result
        return self.push(jid, N("iq", {"id": node["id"], "type": "result", "from": node["to"] or S_WHATSAPP}))

    def process_message(self, jid, node):
        to = node["to"]
        mid = node["id"]
        self.push(jid, N("ack", {"class": "message", "id": mid, "from": to, "t": str(self.t)}))
        common = {"id": mid, "type": node["type"], "t": str(self.t), "notify": "n-" + jid.split("@")[0]}
        direct = [c for c in node.getAllChildren() if c.tag != "participants"]
        if to in self.groups:
            if node["participant"] is not None:
                # re-send to one participant (answer to a retry)
                targets = {node["participant"]: []}
            else:
                targets = dict((m, []) for m in self.groups[to] if m != jid)
            pn = node.getChild("participants")
            if pn is not None:
                for tn in pn.getAllChildren("to"):
                    if tn["jid"] in targets:
                        targets[tn["jid"]].extend(tn.getAllChildren())
            for m, extra in targets.items():
                attrs = dict(common)
                attrs.update({"from": to, "participant": jid})
                self._queue_message(m, N("message", attrs, [clone(c) for c in extra + direct]), mid)
        else:
            attrs = dict(common)
            attrs["from"] = jid
            carrier = getattr(self, "carriers", {}).get(mid)
            if carrier is not None:
                # delivered as a status / broadcast-list stanza: the chat is the list, the author travels as participant
                attrs["from"] = carrier
                attrs["participant"] = jid
            self._queue_message(to, N("message", attrs, [clone(c) for c in direct]), mid)

    def _queue_message(self, target, node, mid):
        if target not in self.clients:
            return
        faults = self.faults.get((mid, target), set())
        if "corrupt" in faults:
            faults.discard("corrupt")
            self.fault_log.append(("corrupt", mid, target))
            node = self.corrupted(node)
        self.push(target, node, mid=mid)
        if "dup" in faults:
            faults.discard("dup")
            self.fault_log.append(("dup", mid, target))
            self.push(target, clone(node), mid=mid)

    def corrupted(self, node, first=False):
        """the same stanza with one byte of its last ciphertext flipped (inside the authenticated part); `first`: of its FIRST ciphertext — in a
        sender's first group message to a member that is the pairwise part carrying the sender key, the group part behind it stays intact"""
        bad = clone(node)
        encs = bad.getAllChildren("enc")
        if encs:
            e = encs[0] if first else encs[-1]
            data = bytearray(e.getData())
            pos = len(data) - 12 if len(data) > 24 else len(data) // 2
            data[pos] ^= 0x5A
            e.data = bytes(data)
        return bad

    def process_receipt(self, jid, node):
        to = node["to"]
        self.push(jid, N("ack", dict((k, v) for k, v in (("class", "receipt"), ("id", node["id"]), ("from", to), ("type", node["type"]),
                                                          ("participant", node["participant"])) if v is not None)))
        attrs = {"id": node["id"], "t": str(self.t)}
        if node["type"] is not None:
            attrs["type"] = node["type"]
        if to in self.groups:
            author = node["participant"]
            attrs.update({"from": to, "participant": jid})
            target = author
        else:
            attrs["from"] = jid
            target = to
        if target in self.clients:
            self.push(target, N("receipt", attrs, [clone(c) for c in node.getAllChildren()]))
