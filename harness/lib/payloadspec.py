"""Attribute classes of message payloads, generically: construct from / flatten to a list of field values,
and the behavioural probe of AttributesConverter that the translator and the correspondence use.

A schema's fields are the constructor parameters of its attribute class, in order; the required sub-object
`downloadablemedia_attributes` is flattened into its owner ("dl.<field>")."""
import inspect

import boot  # noqa: F401


def _classes():
    from yowsup.layers.protocol_messages.protocolentities.attributes import (
        attributes_audio, attributes_contact, attributes_context_info, attributes_document, attributes_downloadablemedia,
        attributes_extendedtext, attributes_image, attributes_location, attributes_message, attributes_message_key,
        attributes_protocol, attributes_sender_key_distribution_message, attributes_sticker, attributes_video)
    return {
        "message": attributes_message.MessageAttributes,
        "image": attributes_image.ImageAttributes,
        "contact": attributes_contact.ContactAttributes,
        "location": attributes_location.LocationAttributes,
        "extendedtext": attributes_extendedtext.ExtendedTextAttributes,
        "document": attributes_document.DocumentAttributes,
        "audio": attributes_audio.AudioAttributes,
        "video": attributes_video.VideoAttributes,
        "sticker": attributes_sticker.StickerAttributes,
        "skdm": attributes_sender_key_distribution_message.SenderKeyDistributionMessageAttributes,
        "protocol": attributes_protocol.ProtocolAttributes,
        "messagekey": attributes_message_key.MessageKeyAttributes,
        "contextinfo": attributes_context_info.ContextInfoAttributes,
        "dl": attributes_downloadablemedia.DownloadableMediaMessageAttributes,
    }


# schema name -> (converter to-proto, from-proto, [(field, type)]); types: str bytes int bool float enum list sub:<schema> embed:<schema>
SCHEMAS = [
    ("message", "message_to_proto", "proto_to_message",
     [("conversation", "str"), ("image", "sub:image"), ("contact", "sub:contact"), ("location", "sub:location"),
      ("extended_text", "sub:extendedtext"), ("document", "sub:document"), ("audio", "sub:audio"), ("video", "sub:video"),
      ("sticker", "sub:sticker"), ("sender_key_distribution_message", "sub:skdm"), ("protocol", "sub:protocol")]),
    ("image", "image_to_proto", "proto_to_image",
     [("downloadablemedia_attributes", "embed:dl"), ("width", "int"), ("height", "int"), ("caption", "str"), ("jpeg_thumbnail", "bytes")]),
    ("contact", "contact_to_proto", "proto_to_contact", [("display_name", "str"), ("vcard", "bytes"), ("context_info", "sub:contextinfo")]),
    ("location", "location_to_proto", "proto_to_location",
     [("degrees_latitude", "float"), ("degrees_longitude", "float"), ("name", "str"), ("address", "str"), ("url", "str"), ("duration", "float"),
      ("accuracy_in_meters", "int"), ("speed_in_mps", "float"), ("degrees_clockwise_from_magnetic_north", "int"),
      ("axolotl_sender_key_distribution_message", "bytes"), ("jpeg_thumbnail", "bytes")]),
    ("extendedtext", "extendedtext_to_proto", "proto_to_extendedtext",
     [("text", "str"), ("matched_text", "str"), ("canonical_url", "str"), ("description", "str"), ("title", "str"), ("jpeg_thumbnail", "bytes"),
      ("context_info", "sub:contextinfo")]),
    ("document", "document_to_proto", "proto_to_document",
     [("downloadablemedia_attributes", "embed:dl"), ("file_name", "str"), ("file_length", "int"), ("title", "str"), ("page_count", "int"),
      ("jpeg_thumbnail", "bytes")]),
    ("audio", "audio_to_proto", "proto_to_audio", [("downloadablemedia_attributes", "embed:dl"), ("seconds", "int"), ("ptt", "bool"), ("streaming_sidecar", "bytes")]),
    ("video", "video_to_proto", "proto_to_video",
     [("downloadablemedia_attributes", "embed:dl"), ("width", "int"), ("height", "int"), ("seconds", "int"), ("gif_playback", "bool"),
      ("jpeg_thumbnail", "bytes"), ("gif_attribution", "enum"), ("caption", "str"), ("streaming_sidecar", "bytes")]),
    ("sticker", "sticker_to_proto", "proto_to_sticker", [("downloadablemedia_attributes", "embed:dl"), ("width", "int"), ("height", "int"), ("png_thumbnail", "bytes")]),
    ("skdm", "sender_key_distribution_message_to_proto", "proto_to_sender_key_distribution_message",
     [("group_id", "str"), ("axolotl_sender_key_distribution_message", "bytes")]),
    ("protocol", "protocol_to_proto", "proto_to_protocol", [("key", "sub:messagekey"), ("type", "enum0")]),
    ("messagekey", "message_key_to_proto", "proto_to_message_key", [("remote_jid", "str"), ("from_me", "bool"), ("id", "str"), ("participant", "str")]),
    ("contextinfo", "contextinfo_to_proto", "proto_to_contextinfo",
     [("stanza_id", "str"), ("participant", "str"), ("quoted_message", "sub:message"), ("remote_jid", "str"), ("mentioned_jid", "list"),
      ("edit_version", "int"), ("revoke_message", "bool")]),
]
DL_FIELDS = [("mimetype", "str"), ("file_length", "int"), ("file_sha256", "bytes"), ("url", "str"), ("media_key", "bytes"), ("context_info", "sub:contextinfo")]
SCHEMA_IDS = dict((s[0], i) for i, s in enumerate(SCHEMAS))


def flat_fields(name):
    """[(path, type)] with the embedded downloadable attributes flattened"""
    out = []
    for f, t in SCHEMAS[SCHEMA_IDS[name]][3]:
        if t.startswith("embed:"):
            out.extend(("dl." + df, dt) for df, dt in DL_FIELDS)
        else:
            out.append((f, t))
    return out


def check_signatures():
    """the hand-written field lists must be exactly the constructor parameters of the current classes"""
    cl = _classes()
    bad = []
    for name, _to, _frm, fields in SCHEMAS:
        params = [p for p in inspect.signature(cl[name].__init__).parameters if p != "self"]
        if params != [f for f, _t in fields]:
            bad.append("%s: constructor %s vs table %s" % (name, params, [f for f, _t in fields]))
    params = [p for p in inspect.signature(cl["dl"].__init__).parameters if p != "self"]
    if params != [f for f, _t in DL_FIELDS]:
        bad.append("dl: constructor %s vs table %s" % (params, [f for f, _t in DL_FIELDS]))
    return bad


def build(name, values):
    """attribute object of schema `name` from flat field values (dict path -> python value); sub-objects are given as
    already built attribute objects (or None)"""
    cl = _classes()
    args = []
    for f, t in SCHEMAS[SCHEMA_IDS[name]][3]:
        if t.startswith("embed:"):
            args.append(cl["dl"](*[values.get("dl." + df) for df, _dt in DL_FIELDS]))
        else:
            args.append(values.get(f))
    return cl[name](*args)


def flatten(name, obj):
    """flat dict path -> python value of an attribute object (sub-objects stay objects)"""
    out = {}
    for f, t in SCHEMAS[SCHEMA_IDS[name]][3]:
        if t.startswith("embed:"):
            sub = getattr(obj, f)
            for df, _dt in DL_FIELDS:
                out["dl." + df] = getattr(sub, df)
        else:
            out[f] = getattr(obj, f)
    return out


def truthy(t, i):
    return {"str": u"s%dé" % i, "bytes": b"b%d\xff" % i, "int": 1000 + i, "bool": True, "float": 1.5 + i, "enum": 1, "enum0": 0, "list": ["49%d@s.whatsapp.net" % i]}[t]


def falsy(t):
    return {"str": u"", "bytes": b"", "int": 0, "bool": False, "float": 0.0, "enum": 0, "enum0": 0, "list": []}[t]


def minimal(name, depth=0, salt=0):
    """an attribute object of schema `name` with every field set to a truthy value, sub-objects minimal (used as probe base / sub sentinel)"""
    vals = {}
    for i, (p, t) in enumerate(flat_fields(name)):
        if t.startswith("sub:"):
            sub = t[4:]
            vals[p] = None if (sub in ("message", "contextinfo") or depth > 1) else minimal(sub, depth + 1)
        else:
            vals[p] = truthy(t, i + salt)
    if name == "protocol":
        vals["key"] = minimal("messagekey", depth + 1, salt)
    return build(name, vals)


def converter():
    from yowsup.layers.protocol_messages.protocolentities.attributes.converter import AttributesConverter
    return AttributesConverter.get()


def to_proto(name, obj):
    return getattr(converter(), SCHEMAS[SCHEMA_IDS[name]][1])(obj)


def from_proto(name, proto):
    return getattr(converter(), SCHEMAS[SCHEMA_IDS[name]][2])(proto)


def _eq(a, b):
    if isinstance(a, float) or isinstance(b, float):
        try:
            return abs(float(a) - float(b)) < 1e-9
        except Exception:
            return False
    if hasattr(a, "__iter__") and not isinstance(a, (str, bytes)) and hasattr(b, "__iter__") and not isinstance(b, (str, bytes)):
        return list(a) == list(b)
    return a == b


def probe_schema(name):
    """per flat field: dict(kind, fwd, bwd, target, source, raises) determined by running the converter"""
    fields = flat_fields(name)
    base_vals = flatten(name, minimal(name))
    try:
        base_proto = to_proto(name, build(name, base_vals))
    except Exception as e:
        raise RuntimeError("probe base of %s does not convert: %r" % (name, e))
    desc = base_proto.DESCRIPTOR
    out = []
    for i, (p, t) in enumerate(fields):
        info = {"path": p, "type": t, "kind": "sub" if t.startswith("sub:") else ("list" if t == "list" else "scalar"),
                "sub": SCHEMA_IDS[t[4:]] if t.startswith("sub:") else 0, "target": 0, "source": 0, "raises": False}
        # ---- forward: which proto field receives this attribute?
        if t.startswith("sub:"):
            sentinel = minimal(t[4:], 2)
        else:
            sentinel = truthy(t, 50 + i)
            if t in ("bool", "enum", "enum0"):
                sentinel = truthy(t, i)
        v = dict(base_vals)
        v[p] = None
        try:
            proto_without = to_proto(name, build(name, v))
            none_raises = False
        except Exception:
            proto_without = None
            none_raises = True
        v[p] = sentinel
        try:
            proto_with = to_proto(name, build(name, v))
        except Exception:
            proto_with = None
            info["raises"] = True
        target = None
        if proto_with is not None:
            ref = proto_without
            if ref is None:
                # required field: compare with another value
                v2 = dict(base_vals)
                v2[p] = falsy(t) if not t.startswith("sub:") else minimal(t[4:], 2, salt=7)
                try:
                    ref = to_proto(name, build(name, v2))
                except Exception:
                    ref = None
            names_with = dict((fd.name, val) for fd, val in proto_with.ListFields())
            names_ref = dict((fd.name, val) for fd, val in ref.ListFields()) if ref is not None else {}
            for nme, val in names_with.items():
                if hasattr(val, "ListFields"):
                    differs = nme not in names_ref or names_ref[nme].SerializeToString() != val.SerializeToString()
                else:
                    differs = nme not in names_ref or not _eq(names_ref[nme], val)
                if differs:
                    target = nme
                    break
            if target is None and t == "enum0" and p in names_with:
                target = p          # an enumeration with a single legal value: nothing to vary, matched by name
        if target is not None:
            info["target"] = desc.fields_by_name[target].number
        # presence rule forward
        if none_raises:
            info["fwd"] = "always"
        elif target is None:
            info["fwd"] = "never"
        elif t.startswith("sub:") or t == "enum0":
            info["fwd"] = "notNone"
        else:
            v[p] = falsy(t)
            try:
                pf = to_proto(name, build(name, v))
                present = any(fd.name == target for fd, _val in pf.ListFields()) if t == "list" else pf.HasField(target)
                info["fwd"] = "notNone" if present else "truthy"
            except Exception:
                info["fwd"] = "truthy"
        out.append(info)
    # ---- backward: which attribute does each proto field feed?
    for fd in desc.fields:
        absent = type(base_proto)()
        absent.CopyFrom(base_proto)
        absent.ClearField(fd.name)
        present = type(base_proto)()
        present.CopyFrom(base_proto)
        cand = [x for x in out if x["target"] == fd.number]
        try:
            if fd.type == fd.TYPE_MESSAGE:
                if fd.label == fd.LABEL_REPEATED:
                    continue
                sub = getattr(present, fd.name)
                if cand and cand[0]["kind"] == "sub":
                    sub.CopyFrom(to_proto(SCHEMAS[cand[0]["sub"]][0], minimal(SCHEMAS[cand[0]["sub"]][0], 2)))
                else:
                    sub.SetInParent()
            elif fd.label == fd.LABEL_REPEATED:
                getattr(present, fd.name)[:] = [u"49999@s.whatsapp.net"]
            else:
                ty = {fd.TYPE_STRING: "str", fd.TYPE_BYTES: "bytes", fd.TYPE_BOOL: "bool", fd.TYPE_ENUM: "enum", fd.TYPE_DOUBLE: "float", fd.TYPE_FLOAT: "float"}.get(fd.type, "int")
                setattr(present, fd.name, truthy(ty, 70 + fd.number))
            a_abs = flatten(name, from_proto(name, absent))
            a_pre = flatten(name, from_proto(name, present))
        except Exception:
            continue
        changed = [p for p in a_abs if not _same2(a_abs[p], a_pre[p])]
        for p in changed:
            info = [x for x in out if x["path"] == p][0]
            info["source"] = fd.number
            if a_abs[p] is None:
                info["bwd"] = "hasField"
                if info["kind"] == "scalar" and info["type"] != "enum0":
                    proto2 = type(base_proto)()
                    proto2.CopyFrom(base_proto)
                    setattr(proto2, fd.name, falsy(info["type"]))
                    if flatten(name, from_proto(name, proto2))[p] is None:
                        info["bwd"] = "truthy"
            else:
                info["bwd"] = "always"
    for info in out:
        if info["type"] == "enum0" and info["target"] and "bwd" not in info:
            info["source"], info["bwd"] = info["target"], "always"
        info.setdefault("bwd", "never")
        if info["kind"] == "list":
            info["fwd"] = "notNone" if info["fwd"] in ("notNone", "truthy") and info["target"] else info["fwd"]
            info["bwd"] = "hasField" if info["bwd"] in ("always", "hasField") and info["source"] else info["bwd"]
    return out


def _deep(a):
    if hasattr(a, "__dict__") and not isinstance(a, (str, bytes)):
        return tuple((k, _deep(v)) for k, v in sorted(a.__dict__.items()))
    if isinstance(a, (list, tuple)) or (hasattr(a, "__iter__") and not isinstance(a, (str, bytes, dict))):
        return tuple(_deep(x) for x in a)
    return a


def _same2(a, b):
    if a is None or b is None:
        return a is b
    if hasattr(a, "__dict__") and hasattr(b, "__dict__") and not isinstance(a, (str, bytes)):
        return _deep(a) == _deep(b)
    return _eq(a, b)


def _same(a, b):
    if a is None or b is None:
        return a is b
    if hasattr(a, "__dict__") and hasattr(b, "__dict__") and not isinstance(a, (str, bytes)):
        return True        # sub-objects: presence is what counts here
    return _eq(a, b)
