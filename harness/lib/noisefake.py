"""Put a real YowNoiseLayer into transport state without a handshake: the real WANoiseProtocol state
machine and the real BlockingQueueSegmentedStream stay in place; only consonance's transport
(the cipher) is replaced by a tagging stand-in ("ciphertext" = 0x01 + plaintext + 15 zero bytes: the real cipher's 16 bytes of overhead)."""
import boot  # noqa: F401


TAG = b"\x00" * 15          # with the marker byte: 16 bytes of overhead per message, like the AES-GCM tag of the real transport


class FakeTransport(object):
    def __init__(self, stream):
        self._stream = stream
        self.sent = 0
        self.received = 0
        self.nonces = []        # nonce taken by every encryption
        self.written = []       # nonces of the messages whose segment was accepted by the layers below

    def send(self, data):
        # like consonance's transport: the cipher state advances (one nonce per message) BEFORE the segment is handed to the stream
        n = self.sent
        self.sent += 1
        self.nonces.append(n)
        self._stream.write_segment(b"\x01" + bytes(data) + TAG)
        self.written.append(n)

    def recv(self):
        d = self._stream.read_segment()
        self.received += 1
        if d[:1] != b"\x01" or d[-len(TAG):] != TAG:
            raise ValueError("decryption failed")
        return bytes(d[1:-len(TAG)])


def to_transport(noise_layer):
    p = noise_layer._wa_noiseprotocol
    p._machine.set_state("transport")
    p._last_triggered_state = "transport"
    p._transport = FakeTransport(noise_layer._stream)
    noise_layer._stream.set_events_callback(noise_layer._handle_stream_event)
    return p._transport


def wire(data):
    """what the peer puts on the wire for a plaintext frame (segment header added by the caller's layer)"""
    return b"\x01" + bytes(data) + TAG
