"""Stanza trees for the codec checks: conversions (harness tuple <-> ProtocolTreeNode <-> driver line)
and structured generators.  A tree is (tag:str, attrs:[(k,v)], data:bytes|None, kids:[tree]);
strings are Python str restricted to Latin-1."""
import boot  # noqa: F401
from yowsup.structs import ProtocolTreeNode

from . import refcodec

RESERVED = ("xmlstreamstart", "xmlstreamend")


def hx(b):
    b = bytes(b)
    return b.hex() if b else "-"


def s2h(s):
    return hx(s.encode("latin-1"))


def to_line(t):
    tag, attrs, data, kids = t
    parts = ["N", s2h(tag), str(len(attrs))]
    for k, v in attrs:
        parts += [s2h(k), s2h(v)]
    if data is None:
        parts.append("X")
    else:
        parts += ["D", hx(data)]
    parts.append(str(len(kids)))
    out = " ".join(parts)
    for k in kids:
        out += " " + to_line(k)
    return out


def to_node(t):
    tag, attrs, data, kids = t
    return ProtocolTreeNode(tag, dict(attrs), [to_node(k) for k in kids] if kids else None, data)


class HasNone(Exception):
    pass


def from_node(n):
    if n is None:
        raise HasNone()
    attrs = list(n.attributes.items())
    for k, v in attrs:
        if k is None or v is None:
            raise HasNone()
    data = n.data
    if data is not None and not isinstance(data, bytes):
        raise TypeError("node data of type %s" % type(data).__name__)
    return (n.tag, attrs, data, [from_node(c) for c in n.children])


def to_json(t):
    tag, attrs, data, kids = t
    return {"t": tag, "a": [[k, v] for k, v in attrs], "d": None if data is None else _datajson(data), "k": [to_json(k) for k in kids]}


def _datajson(b):
    # long constant payloads are stored run-length encoded to keep replays small
    if len(b) > 64 and b == bytes([b[0]]) * len(b):
        return {"rep": b[0], "n": len(b)}
    return b.hex()


def from_json(j):
    d = j["d"]
    if isinstance(d, dict):
        d = bytes([d["rep"]]) * d["n"]
    elif d is not None:
        d = bytes.fromhex(d)
    return (j["t"], [(k, v) for k, v in j["a"]], d, [from_json(k) for k in j["k"]])


def equal_unordered(a, b):
    """the property's equality: same tag, attributes (as a mapping), binary content, children in order"""
    if a[0] != b[0] or dict(a[1]) != dict(b[1]) or len(a[1]) != len(b[1]) or a[2] != b[2] or len(a[3]) != len(b[3]):
        return False
    return all(equal_unordered(x, y) for x, y in zip(a[3], b[3]))


def str_ok(s):
    """the property's string domain"""
    # since fix 45f23bb (marker entries 0..2 of the dictionary are never written as string tokens) every byte-range string is in
    # the domain: the empty string, the reserved words and JID forms with empty parts included
    return all(ord(c) < 256 for c in s)


def wf(t, top=True):
    tag, attrs, data, kids = t
    if not str_ok(tag):
        return False
    keys = [k for k, _ in attrs]
    if len(set(keys)) != len(keys):
        return False
    for k, v in attrs:
        if not (str_ok(k) and str_ok(v)):
            return False
    if data is not None and kids:
        return False
    return all(wf(k, False) for k in kids)


def count_nodes(t):
    return 1 + sum(count_nodes(k) for k in t[3])


# ------------------------------------------------------------------------------ generators

class Gen(object):
    def __init__(self, rng, lits=(), strs=()):
        self.r = rng
        self.lits = [v for v in lits if 0 <= v < 5000]
        self.strs = [s for s in strs if s and all(ord(c) < 256 for c in s)]
        self.tokens = [w for w in refcodec.PRIMARY[3:]] + list(refcodec.SECONDARY)

    def size(self, cap=None):
        r = self.r
        k = r.random()
        if k < 0.6:
            v = r.choice([0, 1, 2, 3, 5, 16, 31, 127, 128, 129, 254, 255])
        elif k < 0.8:
            v = r.choice([256, 257, 300, 1000, 4095, 4096])
        elif k < 0.9 and self.lits:
            v = max(0, r.choice(self.lits) + r.choice([-1, 0, 1]))
        else:
            v = r.randint(0, 600)
        if cap is not None:
            v = min(v, cap)
        return v

    def string(self, kind=None):
        r = self.r
        kind = kind or r.choice(["token", "token", "digits", "nibble", "hex", "text", "text", "jid", "latin1", "harvest", "mixed", "edge"])
        if kind == "edge":
            w = r.choice(RESERVED)
            return r.choice(["", "@", "@@", "a@", "@a", "a@@b", w, w + "@s.whatsapp.net", "1234@" + w, "a@" + w + "@b", w + "@", "@" + w, w + "@" + w])
        if kind == "token":
            return r.choice(self.tokens)
        if kind == "digits":
            return "".join(r.choice("0123456789") for _ in range(max(1, self.size(255))))
        if kind == "nibble":
            return "".join(r.choice("0123456789-.") for _ in range(max(1, self.size(260))))
        if kind == "hex":
            return "".join(r.choice("0123456789ABCDEF") for _ in range(max(1, self.size(260))))
        if kind == "text":
            return "".join(r.choice("abcdefghijklmnopqrstuvwxyz _:/ABC") for _ in range(r.randint(1, 24)))
        if kind == "latin1":
            n = max(1, self.size(700))
            s = "".join(chr(r.randrange(256)) for _ in range(n))
            return s.rstrip("@") or "x"
        if kind == "harvest" and self.strs:
            return r.choice(self.strs).rstrip("@") or "x"
        if kind == "mixed":
            return r.choice(["0", "9", "-", ".", "A", "F", "G", "a", "12a", "1.2-3", "ABCDEF0", "abcdef", "00", "1" * 127, "1" * 128, "A" * 127, "A" * 128, "7" * 255, "7" * 256])
        if kind == "jid":
            parts = [self.string(r.choice(["digits", "token", "text", "nibble", "hex"])) for _ in range(r.choice([2, 2, 2, 3, 4]))]
            return "@".join(parts)
        return "x"

    def jid_reserved(self):
        r = self.r
        w = r.choice(RESERVED)
        return r.choice([w + "@s.whatsapp.net", "1234@" + w, "a@" + w + "@b"])

    def payload(self, n):
        r = self.r
        if n <= 64:
            return bytes(r.randrange(256) for _ in range(n))
        return bytes([r.randrange(256)]) * n

    def tree(self, depth=0, big=None):
        r = self.r
        tag = self.string(r.choice(["token", "token", "text", "digits", "latin1", "jid", "harvest"]))
        na = r.choice([0, 0, 1, 1, 2, 3, 5])
        attrs, seen = [], set()
        for _ in range(na):
            k = self.string(r.choice(["token", "token", "text", "harvest"]))
            if k in seen:
                continue
            seen.add(k)
            attrs.append((k, self.string()))
        data, kids = None, []
        c = r.random()
        if big is not None and depth == big[0]:
            data = self.payload(big[1])
        elif c < 0.3 or depth >= 3:
            if r.random() < 0.6:
                data = self.payload(self.size())
        elif c < 0.8:
            nk = r.choice([1, 1, 2, 3, 4])
            kids = [self.tree(depth + 1, big) for _ in range(nk)]
            if big is not None and depth < big[0] and not any(_has_big(k, big[1]) for k in kids):
                kids[r.randrange(len(kids))] = self.tree(depth + 1, big)
        return (tag, attrs, data, kids)


def _has_big(t, n):
    return (t[2] is not None and len(t[2]) == n) or any(_has_big(k, n) for k in t[3])
