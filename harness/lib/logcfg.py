"""An application may configure logging as it likes (per-module levels by dictConfig, setLevel on a module's logger, a root level): none of
it may change what the library does.  `levels(name)` puts every logger of the library at a given level for the duration of a case.  (The
harness otherwise runs with logging.disable(CRITICAL); inside the block that is lifted, so that `isEnabledFor` answers as it does in an
application that has configured these levels, and the records end in a NullHandler.)"""
import contextlib
import logging

MODES = {"module-warning": logging.WARNING, "module-critical": logging.CRITICAL, "module-debug": logging.DEBUG, "module-info": logging.INFO}
ROOTS = ("yowsup", "axolotl", "consonance")


@contextlib.contextmanager
def levels(mode):
    if not mode:
        yield
        return
    lvl = MODES[mode]
    saved = []
    for name, lg in list(logging.Logger.manager.loggerDict.items()):
        if isinstance(lg, logging.Logger) and any(name == r or name.startswith(r + ".") for r in ROOTS):
            saved.append((lg, lg.level))
            lg.setLevel(lvl)
    tops = []
    null = logging.NullHandler()
    for r in ROOTS:
        lg = logging.getLogger(r)
        tops.append((lg, lg.propagate, list(lg.handlers)))
        lg.handlers[:] = [null]            # (the library attaches a stream handler of its own to "yowsup": the records go nowhere here)
        lg.propagate = False
    was_disabled = logging.root.manager.disable
    logging.disable(logging.NOTSET)
    try:
        yield
    finally:
        logging.disable(was_disabled)
        for lg, prop, handlers in tops:
            lg.handlers[:] = handlers
            lg.propagate = prop
        for lg, old in saved:
            lg.setLevel(old)
