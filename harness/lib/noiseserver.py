"""Server double for the encrypted transport: a Noise responder speaking WhatsApp's handshake framing
(prologue, optional edge routing header, 3-byte length-prefixed segments, HandshakeMessage protobufs) built on
the same dissononce primitives the client uses (responder role): XX for a first contact, IK when the client
knows our static key, XXfallback when it knows another one.  After the handshake it encrypts / decrypts
transport frames strictly in order."""
import struct

import boot  # noqa: F401


class ServerError(Exception):
    pass


class NoiseServer(object):
    def __init__(self, static=None, accept=True, corrupt_reply=False):
        from dissononce.dh.x25519.x25519 import X25519DH
        self.dh = X25519DH()
        self.s = static or self.dh.generate_keypair()
        self.accept = accept
        self.corrupt_reply = corrupt_reply     # damage the server hello: its authentication must fail at the client
        self.buf = bytearray()
        self.stage = "prologue"
        self.out = bytearray()                 # bytes for the client
        self.edge_info = None
        self.variant = None
        self.client_payload = None
        self.hs = None
        self.send_cs = self.recv_cs = None
        self.received = []                     # decrypted client frames, in order
        self.errors = []

    # -- primitives ------------------------------------------------------------------------------------------
    def _handshakestate(self):
        from dissononce.cipher.aesgcm import AESGCMCipher
        from dissononce.hash.sha256 import SHA256Hash
        from dissononce.processing.impl.cipherstate import CipherState
        from dissononce.processing.impl.handshakestate import HandshakeState
        from consonance.dissononce_extras.processing.symmetricstate_wa import WASymmetricState

        class ServerSymmetricState(WASymmetricState):
            """the peer of the client's WASymmetricState: no MixHash of a payload that was not encrypted"""
            def decrypt_and_hash(self, ciphertext):
                plaintext = self._cipherstate.decrypt_with_ad(self._h, ciphertext)
                if self._cipherstate.has_key():
                    self.mix_hash(ciphertext)
                return plaintext
        return HandshakeState(ServerSymmetricState(CipherState(AESGCMCipher()), SHA256Hash()), self.dh)

    def static_public(self):
        return bytes(self.s.public.data)

    def _cert(self):
        from consonance.proto import wa20_pb2
        d = wa20_pb2.NoiseCertificate.Details()
        d.serial = 1
        d.issuer = "VerifDouble"
        d.subject = "server"
        d.key = self.static_public()
        c = wa20_pb2.NoiseCertificate()
        c.details = d.SerializeToString()
        c.signature = b"\x00" * 64
        return c.SerializeToString()

    def _segment(self, data):
        self.out += struct.pack(">I", len(data))[1:] + bytes(data)

    # -- input -----------------------------------------------------------------------------------------------
    def feed(self, data):
        """bytes from the client, in any fragmentation"""
        self.buf += bytes(data)
        progressed = True
        while progressed:
            progressed = False
            if self.stage == "prologue":
                if self.buf[:2] == b"ED" and len(self.buf) >= 4:
                    if len(self.buf) >= 7:
                        n = struct.unpack(">I", b"\x00" + bytes(self.buf[4:7]))[0]
                        if len(self.buf) >= 7 + n:
                            self.edge_info = bytes(self.buf[7:7 + n])
                            del self.buf[:7 + n]
                            progressed = True
                elif len(self.buf) >= 4:
                    if bytes(self.buf[:4]) != b"WA\x04\x00":
                        self.errors.append("bad prologue %r" % bytes(self.buf[:4]))
                        self.stage = "dead"
                        return
                    del self.buf[:4]
                    self.stage = "hello"
                    progressed = True
            elif self.stage in ("hello", "finish", "transport"):
                if len(self.buf) >= 3:
                    n = struct.unpack(">I", b"\x00" + bytes(self.buf[:3]))[0]
                    if len(self.buf) >= 3 + n:
                        seg = bytes(self.buf[3:3 + n])
                        del self.buf[:3 + n]
                        self._segment_in(seg)
                        progressed = True

    def _segment_in(self, seg):
        from consonance.proto import wa20_pb2
        from dissononce.dh.x25519.public import PublicKey
        from dissononce.exceptions.decrypt import DecryptFailedException
        from dissononce.processing.handshakepatterns.interactive.IK import IKHandshakePattern
        from dissononce.processing.handshakepatterns.interactive.XX import XXHandshakePattern
        from dissononce.processing.modifiers.fallback import FallbackPatternModifier
        prologue = b"WA\x04\x00"
        if self.stage == "hello":
            m = wa20_pb2.HandshakeMessage()
            m.ParseFromString(seg)
            ch = m.client_hello
            self.hs = self._handshakestate()
            reply = wa20_pb2.HandshakeMessage()
            if ch.HasField("static"):
                # the client thinks it knows our static key
                self.hs.initialize(IKHandshakePattern(), False, prologue, s=self.s)
                payload = bytearray()
                try:
                    self.hs.read_message(ch.ephemeral + ch.static + ch.payload, payload)
                    ok = True
                except DecryptFailedException:
                    ok = False
                if ok:
                    self.variant = "IK"
                    self._client_payload(bytes(payload))
                    buf = bytearray()
                    pair = self.hs.write_message(self._cert(), buf)
                    reply.server_hello.ephemeral = bytes(buf[:32])
                    reply.server_hello.payload = bytes(buf[32:])
                    self._reply(reply)
                    self._established(pair)
                    return
                self.variant = "XXfallback"
                self.hs = self._handshakestate()
                self.hs.initialize(FallbackPatternModifier().modify(XXHandshakePattern()), False, prologue, s=self.s, re=PublicKey(ch.ephemeral))
            else:
                self.variant = "XX"
                self.hs.initialize(XXHandshakePattern(), False, prologue, s=self.s)
                self.hs.read_message(ch.ephemeral, bytearray())
            buf = bytearray()
            self.hs.write_message(self._cert(), buf)
            reply.server_hello.ephemeral = bytes(buf[:32])
            reply.server_hello.static = bytes(buf[32:80])
            reply.server_hello.payload = bytes(buf[80:])
            self._reply(reply)
            self.stage = "finish"
        elif self.stage == "finish":
            m = wa20_pb2.HandshakeMessage()
            m.ParseFromString(seg)
            payload = bytearray()
            try:
                pair = self.hs.read_message(m.client_finish.static + m.client_finish.payload, payload)
            except DecryptFailedException:
                self.errors.append("client finish does not authenticate")
                self.stage = "dead"
                return
            self._client_payload(bytes(payload))
            self._established(pair)
        elif self.stage == "transport":
            try:
                self.received.append(bytes(self.recv_cs.decrypt_with_ad(b"", seg)))
            except Exception as e:
                self.errors.append("client frame #%d does not decrypt: %s" % (len(self.received), type(e).__name__))
                self.stage = "dead"

    def _reply(self, msg):
        data = bytearray(msg.SerializeToString())
        if self.corrupt_reply:
            data[-5] ^= 0x41
        self._segment(bytes(data))

    def _client_payload(self, data):
        from consonance.proto import wa20_pb2
        p = wa20_pb2.ClientPayload()
        p.ParseFromString(data)
        self.client_payload = p

    def _established(self, pair):
        # the initiator sends with the first cipher state, the responder with the second
        self.recv_cs, self.send_cs = pair[0], pair[1]
        self.stage = "transport"

    # -- output ----------------------------------------------------------------------------------------------
    def send_frame(self, plaintext):
        if self.stage != "transport":
            raise ServerError("not in transport state")
        self._segment(self.send_cs.encrypt_with_ad(b"", bytes(plaintext)))

    def take_output(self):
        d = bytes(self.out)
        del self.out[:]
        return d
