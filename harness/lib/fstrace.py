"""Trace (and optionally kill at) the file operations a piece of code performs: open for writing,
write, flush/fsync, close, os.replace/os.rename, os.makedirs, os.remove/os.unlink (a save that removes a file is not one of the
model's atomic shapes: the regenerated trace then does not even type-check).  Paths are reported relative to a
`final` path: 0 = the final file, 1.. = other files in order of first appearance."""
import builtins
import os


class Tracer(object):
    def __init__(self, final, kill_at=None, torn=False, fail=False):
        """fail: at the chosen operation the process is not killed: the operation FAILS (OSError: no space left on device, after half of the
        buffered data was written if `torn`) and the code under test goes on as it is written — its handlers and finally blocks run"""
        self.fail = fail
        self.final = os.path.realpath(final)
        self.ops = []
        self.ids = {}
        self.kill_at = kill_at
        self.torn = torn
        self._saved = None
        self._pending = {}

    def pid(self, path):
        p = os.path.realpath(path)
        if p == self.final:
            return 0
        if p not in self.ids:
            self.ids[p] = len(self.ids) + 1
        return self.ids[p]

    def _point(self, op, f=None, data=None):
        if self.kill_at is not None and len(self.ops) == self.kill_at:
            if self.torn and op[0] in ("close", "sync") and f is not None:
                # a torn flush: only part of the buffered data reaches the file
                try:
                    pending = self._pending.get(id(f), b"")
                    raw = f.buffer.raw if hasattr(f, "buffer") else f.raw
                    part = pending[:max(1, len(pending) // 2)]
                    raw.write(part if isinstance(part, bytes) else part.encode())
                except Exception:
                    pass
            if self.fail:
                import errno
                self.kill_at = None          # once
                self.failed = op
                raise OSError(errno.ENOSPC, "No space left on device")
            os._exit(17)
        self.ops.append(op)

    def __enter__(self):
        tr = self
        real_open, real_replace, real_rename, real_makedirs, real_fsync = builtins.open, os.replace, os.rename, os.makedirs, os.fsync
        real_remove, real_unlink = os.remove, os.unlink

        class F(object):
            def __init__(self, f, i):
                self._f, self._i = f, i

            def write(self, data):
                tr._pending[id(self._f)] = tr._pending.get(id(self._f), b"") + (data if isinstance(data, bytes) else data.encode())
                tr._point(("write", self._i), self._f, data)
                return self._f.write(data)    # buffered, as in the model: reaches the file at flush / close

            def flush(self):
                tr._point(("sync", self._i), self._f)
                tr._pending[id(self._f)] = b""
                return self._f.flush()

            def close(self):
                if not self._f.closed:
                    tr._point(("close", self._i), self._f)
                return self._f.close()

            def fileno(self):
                return self._f.fileno()

            def __enter__(self):
                return self

            def __exit__(self, *a):
                self.close()

            def __getattr__(self, n):
                return getattr(self._f, n)

        def open_(path, mode="r", *a, **kw):
            if isinstance(path, (str, bytes)) and any(c in mode for c in "wax+"):
                i = tr.pid(path)
                tr._point(("openTrunc", i))
                return F(real_open(path, mode, *a, **kw), i)
            return real_open(path, mode, *a, **kw)

        def replace(src, dst, *a, **kw):
            tr._point(("replace", tr.pid(src), tr.pid(dst)))
            return real_replace(src, dst, *a, **kw)

        def rename(src, dst, *a, **kw):
            tr._point(("replace", tr.pid(src), tr.pid(dst)))
            return real_rename(src, dst, *a, **kw)

        def makedirs(path, *a, **kw):
            tr._point(("mkdirs",))
            return real_makedirs(path, *a, **kw)

        def fsync(fd):
            return real_fsync(fd)

        def remove(path, *a, **kw):
            tr._point(("remove", tr.pid(path)))
            return real_remove(path, *a, **kw)
        # a copy between two open files done by the kernel (what shutil's copy functions use): the destination holds part of the data meanwhile
        real_sendfile = getattr(os, "sendfile", None)

        def sendfile(*a, **kw):
            tr._point(("copy",))
            return real_sendfile(*a, **kw)
        self._saved_sendfile = real_sendfile
        if real_sendfile is not None:
            os.sendfile = sendfile
        self._saved = (real_open, real_replace, real_rename, real_makedirs, real_fsync, real_remove, real_unlink)
        builtins.open, os.replace, os.rename, os.makedirs, os.fsync, os.remove, os.unlink = open_, replace, rename, makedirs, fsync, remove, remove
        return self

    def __exit__(self, *a):
        builtins.open, os.replace, os.rename, os.makedirs, os.fsync, os.remove, os.unlink = self._saved
        if getattr(self, "_saved_sendfile", None) is not None:
            os.sendfile = self._saved_sendfile


def lean_op(op):
    if op[0] == "mkdirs":
        return ".mkdirs"
    if op[0] == "replace":
        return ".replace %d %d" % (op[1], op[2])
    return ".%s %d" % (op[0], op[1])
