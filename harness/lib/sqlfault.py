"""Transient storage faults for the sqlite stores: while installed, every connection the code under test opens with check_same_thread=False
(the stores do; the harness's own inspections do not) is a Connection subclass whose statements can be made to fail ONCE with
sqlite3.OperationalError("database is locked") — what a second process holding the file's lock past the busy timeout causes.

arm(path_fragment, nth): the nth statement from now on, on a store connection whose file path contains the fragment, raises; fired() tells
whether it did; disarm() withdraws it."""
import sqlite3

_real_connect = sqlite3.connect
STATE = {"installed": False, "frag": None, "left": 0, "fired": None, "writes_only": False}
WRITES = ("DELETE", "INSERT", "UPDATE", "REPLACE")


def _maybe(conn, sql):
    if STATE["frag"] is None or STATE["fired"] is not None:
        return
    if STATE["frag"] not in getattr(conn, "_verif_path", ""):
        return
    if STATE["writes_only"] and not str(sql).lstrip().upper().startswith(WRITES):
        return
    STATE["left"] -= 1
    if STATE["left"] <= 0:
        STATE["fired"] = " ".join(str(sql).split())[:80]
        raise sqlite3.OperationalError("database is locked")


class Cur(sqlite3.Cursor):
    def execute(self, sql, *a, **kw):
        _maybe(self.connection, sql)
        return sqlite3.Cursor.execute(self, sql, *a, **kw)


class Conn(sqlite3.Connection):
    def cursor(self, *a, **kw):
        return sqlite3.Connection.cursor(self, Cur)

    def execute(self, sql, *a, **kw):
        _maybe(self, sql)
        return sqlite3.Connection.execute(self, sql, *a, **kw)


def _connect(database, *a, **kw):
    if kw.get("check_same_thread") is False and "factory" not in kw:
        kw["factory"] = Conn
        c = _real_connect(database, *a, **kw)
        c._verif_path = str(database)
        return c
    return _real_connect(database, *a, **kw)


def install():
    sqlite3.connect = _connect
    STATE.update(installed=True, frag=None, left=0, fired=None)


def uninstall():
    sqlite3.connect = _real_connect
    STATE.update(installed=False, frag=None, left=0, fired=None)


def arm(frag, nth, writes_only=False):
    """(writes_only: count DELETE / INSERT / UPDATE statements only)"""
    STATE.update(frag=frag, left=nth, fired=None, writes_only=writes_only)


def disarm():
    STATE.update(frag=None, left=0)


def fired():
    return STATE["fired"]
