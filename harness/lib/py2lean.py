"""A translator BY SYNTAX from a small subset of Python (methods of a layer class that work on byte strings and integers) to Lean 4
definitions (shallow embedding): the Lean text is produced from the `ast` of the CURRENT source, statement by statement, with no knowledge of
what the method is meant to do.  Anything outside the subset makes the translator fail (the obligation `translate:<gen>` of the check is then broken
and the failing-input search takes over).

The subset
  values       int (Lean `Nat`), bytes / bytearray (Lean `Bytes` = List Nat), bool
  state        one record `Env`: a field per `self.<attr>` that is read or written, per stack property read with `self.getProp(self.<KEY>, <default>)`
               (an `Option Bool`: unset / set), per parameter and local variable, and the effect channels
                 up  : List Bytes   what was handed to `self.toUpper(...)`, in order
                 low : List Bytes   what was handed to `self.toLower(...)`, in order
                 raised : Bool      the method ended with an exception (an explicit `raise`, or a struct.pack / struct.unpack outside its domain)
                 brk : Bool         (internal) a `break` is unwinding to its loop
                 fuelOut : Bool     a `while` loop was cut off by the fuel of the translation (theorems show it stays false)
  statements   x = e, self.a = e, self.a.extend(e), self.toUpper(e), self.toLower(e), if / else, while (with break), raise, pass,
               a docstring / comment
  expressions  integer and bytes constants, names, self.a, len(e), e[a:b] e[:b] e[a:], e + e (both int or both bytes), bytes(e), bytearray(),
               struct.unpack('>I', e)[0]  (raises unless len(e) = 4), struct.pack('>I', e)  (raises unless e < 2^32),
               comparisons < <= > >= == != of ints, `not`, `and`, `or`, self.getProp(self.KEY, False/True)
Every definition takes a predicate `bad : Bytes → Bool`: `self.toUpper(x)` with `bad x` is a call into layers that raise (the frame counts as handed
up, the method ends with the exception); `fun _ => false` is the run in which nothing above fails.  `toLower` is taken to return normally.
Every `while` becomes a structurally recursive function over a fuel argument; running out of fuel sets `fuelOut`."""
import ast


class Unsupported(Exception):
    pass


NAT, BYTES, BOOL = "Nat", "Bytes", "Bool"


def lname(s):
    return s.replace(".", "_")


class Method(object):
    def __init__(self, fn, tr):
        self.fn = fn
        self.tr = tr
        self.loops = []      # (name, cond, body term)
        self.name = fn.name

    # ---------------------------------------------------------------- expressions: returns (term, type, [raise conditions])
    def expr(self, e):
        tr = self.tr
        if isinstance(e, ast.Constant):
            if isinstance(e.value, bool):
                return ("true" if e.value else "false"), BOOL, []
            if isinstance(e.value, int) and e.value >= 0:
                return "(%d : Nat)" % e.value, NAT, []
            if isinstance(e.value, bytes):
                return "([%s] : Bytes)" % ", ".join(str(b) for b in e.value), BYTES, []
            raise Unsupported("constant %r" % (e.value,))
        if isinstance(e, ast.Name):
            return "e.%s" % tr.var(e.id), tr.vartype(e.id), []
        if isinstance(e, ast.Attribute) and isinstance(e.value, ast.Name) and e.value.id == "self":
            return "e.%s" % tr.attr(e.attr), tr.attrtype(e.attr), []
        if isinstance(e, ast.Call):
            f = e.func
            if isinstance(f, ast.Name) and f.id == "len" and len(e.args) == 1 and not e.keywords:
                t, ty, rc = self.expr(e.args[0])
                if ty != BYTES:
                    raise Unsupported("len of %s" % ty)
                return "(%s).length" % t, NAT, rc
            if isinstance(f, ast.Name) and f.id in ("bytes", "bytearray") and not e.keywords:
                if not e.args:
                    return "([] : Bytes)", BYTES, []
                if len(e.args) == 1:
                    t, ty, rc = self.expr(e.args[0])
                    if ty != BYTES:
                        raise Unsupported("%s(%s)" % (f.id, ty))
                    return t, BYTES, rc
            if (isinstance(f, ast.Attribute) and isinstance(f.value, ast.Name) and f.value.id == "struct" and f.attr == "pack"
                    and len(e.args) == 2 and isinstance(e.args[0], ast.Constant) and e.args[0].value == ">I"):
                t, ty, rc = self.expr(e.args[1])
                if ty != NAT:
                    raise Unsupported("struct.pack of %s" % ty)
                return "(Py.packBE32 (%s))" % t, BYTES, rc + ["(4294967296 ≤ %s)" % t]
            if (isinstance(f, ast.Attribute) and isinstance(f.value, ast.Name) and f.value.id == "self" and f.attr == "getProp"
                    and len(e.args) == 2 and isinstance(e.args[1], ast.Constant) and isinstance(e.args[1].value, bool)
                    and isinstance(e.args[0], ast.Attribute) and isinstance(e.args[0].value, ast.Name) and e.args[0].value.id == "self"):
                return "((e.%s).getD %s)" % (tr.prop(e.args[0].attr), "true" if e.args[1].value else "false"), BOOL, []
            raise Unsupported("call %s" % ast.unparse(e))
        if isinstance(e, ast.Subscript):
            # struct.unpack('>I', x)[0]
            v = e.value
            if (isinstance(v, ast.Call) and isinstance(v.func, ast.Attribute) and isinstance(v.func.value, ast.Name)
                    and v.func.value.id == "struct" and v.func.attr == "unpack" and len(v.args) == 2
                    and isinstance(v.args[0], ast.Constant) and v.args[0].value == ">I"
                    and isinstance(e.slice, ast.Constant) and e.slice.value == 0):
                t, ty, rc = self.expr(v.args[1])
                if ty != BYTES:
                    raise Unsupported("struct.unpack of %s" % ty)
                return "(Py.beNat (%s))" % t, NAT, rc + ["((%s).length ≠ 4)" % t]
            if isinstance(e.slice, ast.Slice) and e.slice.step is None:
                t, ty, rc = self.expr(v)
                if ty != BYTES:
                    raise Unsupported("slice of %s" % ty)
                lo = hi = None
                if e.slice.lower is not None:
                    lo, lty, r1 = self.expr(e.slice.lower)
                    rc = rc + r1
                    if lty != NAT:
                        raise Unsupported("slice bound")
                if e.slice.upper is not None:
                    hi, hty, r2 = self.expr(e.slice.upper)
                    rc = rc + r2
                    if hty != NAT:
                        raise Unsupported("slice bound")
                if lo is None and hi is None:
                    return t, BYTES, rc
                if lo is None:
                    return "((%s).take (%s))" % (t, hi), BYTES, rc
                if hi is None:
                    return "((%s).drop (%s))" % (t, lo), BYTES, rc
                return "(((%s).take (%s)).drop (%s))" % (t, hi, lo), BYTES, rc
            raise Unsupported("subscript %s" % ast.unparse(e))
        if isinstance(e, ast.BinOp) and isinstance(e.op, ast.Add):
            a, ta, r1 = self.expr(e.left)
            b, tb, r2 = self.expr(e.right)
            if ta != tb or ta not in (NAT, BYTES):
                raise Unsupported("%s + %s" % (ta, tb))
            return ("(%s + %s)" if ta == NAT else "(%s ++ %s)") % (a, b), ta, r1 + r2
        if isinstance(e, ast.Compare) and len(e.ops) == 1:
            a, ta, r1 = self.expr(e.left)
            b, tb, r2 = self.expr(e.comparators[0])
            if ta != NAT or tb != NAT:
                raise Unsupported("comparison of %s and %s" % (ta, tb))
            op = {ast.Lt: "<", ast.LtE: "≤", ast.Gt: ">", ast.GtE: "≥", ast.Eq: "=", ast.NotEq: "≠"}.get(type(e.ops[0]))
            if op is None:
                raise Unsupported("comparison %s" % ast.unparse(e))
            return "(decide (%s %s %s))" % (a, op, b), BOOL, r1 + r2
        if isinstance(e, ast.UnaryOp) and isinstance(e.op, ast.Not):
            a, ta, r1 = self.expr(e.operand)
            if ta != BOOL:
                raise Unsupported("not %s" % ta)
            return "(!%s)" % a, BOOL, r1
        if isinstance(e, ast.BoolOp):
            parts = [self.expr(v) for v in e.values]
            if any(p[1] != BOOL for p in parts) or any(p[2] for p in parts[1:]):
                raise Unsupported("boolean operator %s" % ast.unparse(e))
            op = " && " if isinstance(e.op, ast.And) else " || "
            return "(" + op.join(p[0] for p in parts) + ")", BOOL, parts[0][2]
        raise Unsupported("expression %s" % ast.unparse(e))

    # ---------------------------------------------------------------- statements: returns a term of type Env in the variable `e`
    @staticmethod
    def guard(rc, term):
        if not rc:
            return term
        return "(if (%s) then { e with raised := true } else %s)" % (" ∨ ".join(rc), term)

    def stmt(self, s, ind):
        tr = self.tr
        if isinstance(s, ast.Pass):
            return "e"
        if isinstance(s, ast.Expr) and isinstance(s.value, ast.Constant) and isinstance(s.value.value, str):
            return "e"
        if isinstance(s, ast.Assign) and len(s.targets) == 1:
            t, ty, rc = self.expr(s.value)
            tgt = s.targets[0]
            if isinstance(tgt, ast.Name):
                f = tr.var(tgt.id, ty)
            elif isinstance(tgt, ast.Attribute) and isinstance(tgt.value, ast.Name) and tgt.value.id == "self":
                f = tr.attr(tgt.attr, ty)
            else:
                raise Unsupported("assignment target %s" % ast.unparse(tgt))
            return self.guard(rc, "{ e with %s := %s }" % (f, t))
        if isinstance(s, ast.Expr) and isinstance(s.value, ast.Call) and isinstance(s.value.func, ast.Attribute) and not s.value.keywords:
            f = s.value.func
            if isinstance(f.value, ast.Name) and f.value.id == "self" and f.attr in ("toUpper", "toLower") and len(s.value.args) == 1:
                t, ty, rc = self.expr(s.value.args[0])
                if ty != BYTES:
                    raise Unsupported("%s(%s)" % (f.attr, ty))
                if f.attr == "toUpper":
                    # the layers above may raise while a frame is handed to them (`bad`): the frame counts as handed up, the method ends there
                    return self.guard(rc, "(if bad (%s) then { e with up := e.up ++ [%s], raised := true } else { e with up := e.up ++ [%s] })" % (t, t, t))
                return self.guard(rc, "{ e with low := e.low ++ [%s] }" % t)
            if (f.attr == "extend" and isinstance(f.value, ast.Attribute) and isinstance(f.value.value, ast.Name)
                    and f.value.value.id == "self" and len(s.value.args) == 1):
                t, ty, rc = self.expr(s.value.args[0])
                a = tr.attr(f.value.attr, BYTES)
                if ty != BYTES:
                    raise Unsupported("extend(%s)" % ty)
                return self.guard(rc, "{ e with %s := e.%s ++ %s }" % (a, a, t))
            raise Unsupported("call statement %s" % ast.unparse(s))
        if isinstance(s, ast.Raise):
            return "{ e with raised := true }"
        if isinstance(s, ast.Break):
            return "{ e with brk := true }"
        if isinstance(s, ast.If):
            c, ty, rc = self.expr(s.test)
            if ty != BOOL:
                raise Unsupported("condition of type %s" % ty)
            a = self.block(s.body, ind + 1)
            b = self.block(s.orelse, ind + 1) if s.orelse else "e"
            pad = "  " * ind
            return self.guard(rc, "(if %s then\n%s  %s\n%s else\n%s  %s)" % (c, pad, a, pad, pad, b))
        if isinstance(s, ast.While) and not s.orelse:
            c, ty, rc = self.expr(s.test)
            if ty != BOOL or rc:
                raise Unsupported("loop condition %s" % ast.unparse(s.test))
            name = "%s_loop%d" % (self.name, len(self.loops))
            self.loops.append(None)
            idx = len(self.loops) - 1
            body = self.block(s.body, 3)
            self.loops[idx] = (name, c, body)
            return "(%s bad fuel e)" % name
        raise Unsupported("statement %s" % ast.unparse(s).split("\n")[0])

    def block(self, stmts, ind):
        terms = [self.stmt(s, ind) for s in stmts]
        terms = [t for t in terms if t != "e"] or ["e"]
        pad = "  " * ind
        out = ""
        for i, t in enumerate(terms):
            if i == len(terms) - 1:
                out += t
            else:
                out += "let e : Env := %s;\n%sif (e.raised || e.brk) then e else\n%s" % (t, pad, pad)
        return "(" + out + ")"


class Translator(object):
    """translate selected methods of one class; all share one Env"""

    def __init__(self, source, classname, params):
        self.tree = ast.parse(source)
        self.cls = next(n for n in ast.walk(self.tree) if isinstance(n, ast.ClassDef) and n.name == classname)
        self.fields = {}         # lean field -> type
        self.params = params     # parameter name -> type
        self.props = {}

    def _field(self, name, ty):
        old = self.fields.get(name)
        if old is None:
            if ty is None:
                raise Unsupported("%s is read before anything was assigned to it" % name)
            self.fields[name] = ty
        elif ty is not None and old != ty:
            raise Unsupported("%s holds a %s and a %s" % (name, old, ty))
        return name

    def var(self, name, ty=None):
        if ty is None and name in self.params:
            ty = self.params[name]
        return self._field(lname(name), ty)

    def vartype(self, name):
        return self.fields[self.var(name)]

    def attr(self, name, ty=None):
        return self._field("self_" + lname(name), ty)

    def attrtype(self, name):
        return self.fields[self.attr(name)]

    def prop(self, key):
        f = "prop_" + key
        self.fields[f] = "Option Bool"
        self.props[key] = f
        return f

    def method(self, name):
        return next(n for n in self.cls.body if isinstance(n, ast.FunctionDef) and n.name == name)

    def decorators(self, name):
        return [ast.unparse(d) for d in self.method(name).decorator_list]

    def translate(self, names, lean_ns, header):
        defs = []
        for name in names:
            fn = self.method(name)
            for a in fn.args.args[1:]:
                if a.arg in self.params:
                    self.var(a.arg, self.params[a.arg])
            m = Method(fn, self)
            body = m.block(fn.body, 1)
            for (ln, c, b) in m.loops:
                defs.append("/-- the `while` loop of `%s` (line %d), one turn per unit of fuel -/\n"
                            "def %s (bad : Bytes → Bool) : Nat → Env → Env\n"
                            "  | 0, e => if %s then { e with fuelOut := true } else e\n"
                            "  | fuel+1, e =>\n"
                            "    if %s then\n"
                            "      let e : Env := %s;\n"
                            "      if e.raised then e else if e.brk then { e with brk := false } else %s bad fuel e\n"
                            "    else e\n" % (name, fn.lineno, ln, c, c, b, ln))
            defs.append("/-- `%s` (line %d of the source) -/\ndef %s (bad : Bytes → Bool) (fuel : Nat) (e : Env) : Env :=\n  %s\n" % (name, fn.lineno, lname(name), body))
        fields = "".join("  %s : %s := %s\n" % (f, t, {"Nat": "0", "Bytes": "[]", "Bool": "false", "Option Bool": "none"}[t])
                         for f, t in sorted(self.fields.items()))
        env = ("structure Env where\n" + fields +
               "  up : List Bytes := []\n  low : List Bytes := []\n  raised : Bool := false\n  brk : Bool := false\n  fuelOut : Bool := false\n"
               "deriving Repr, DecidableEq\n")
        return (header + "import YowsupVerif.Model.PyPrelude\nnamespace %s\nopen Yow\n\n%s\n%s\nend %s\n"
                % (lean_ns, env, "\n".join(defs), lean_ns))


# ---------------------------------------------------------------------------------------------------------------------------------------------
# Second mode: PURE integer functions (no state): methods whose body is a sequence of `if <test>: return <expr>` / `return <expr>` / `raise`,
# over integer parameters, possibly returning the result of another method of the same class.  Result type `Py.Res` (Model/PyPrelude.lean):
# raised | none (fell off the end: Python's None) | ret (v : Int).  Tests: comparisons, `x in range(a, b)`, `x in (a, b, ...)`, and / or / not.
class PureFunctions(object):
    def __init__(self, source, classname, prefix):
        self.tree = ast.parse(source)
        self.cls = next(n for n in ast.walk(self.tree) if isinstance(n, ast.ClassDef) and n.name == classname)
        self.prefix = prefix
        self.names = set()

    def iexpr(self, e, params):
        if isinstance(e, ast.Constant) and isinstance(e.value, int) and not isinstance(e.value, bool):
            return "(%d : Int)" % e.value
        if isinstance(e, ast.UnaryOp) and isinstance(e.op, ast.USub) and isinstance(e.operand, ast.Constant) and isinstance(e.operand.value, int):
            return "(-%d : Int)" % e.operand.value
        if isinstance(e, ast.Name) and e.id in params:
            return e.id
        if isinstance(e, ast.BinOp) and isinstance(e.op, (ast.Add, ast.Sub)):
            return "(%s %s %s)" % (self.iexpr(e.left, params), "+" if isinstance(e.op, ast.Add) else "-", self.iexpr(e.right, params))
        raise Unsupported("integer expression %s" % ast.unparse(e))

    def test(self, e, params):
        if isinstance(e, ast.Compare) and len(e.ops) > 1:
            # a chained comparison a <= n <= b: the conjunction of its links
            terms, left = [], e.left
            for op, right in zip(e.ops, e.comparators):
                terms.append(self.test(ast.Compare(left=left, ops=[op], comparators=[right]), params))
                left = right
            return "(" + " ∧ ".join(terms) + ")"
        if isinstance(e, ast.Compare) and len(e.ops) == 1:
            a, op, b = e.left, e.ops[0], e.comparators[0]
            if isinstance(op, ast.In):
                x = self.iexpr(a, params)
                if (isinstance(b, ast.Call) and isinstance(b.func, ast.Name) and b.func.id == "range" and len(b.args) == 2 and not b.keywords):
                    return "(%s ≤ %s ∧ %s < %s)" % (self.iexpr(b.args[0], params), x, x, self.iexpr(b.args[1], params))
                if isinstance(b, (ast.Tuple, ast.List)) and b.elts:
                    return "(" + " ∨ ".join("%s = %s" % (x, self.iexpr(v, params)) for v in b.elts) + ")"
                raise Unsupported("membership test %s" % ast.unparse(e))
            sym = {ast.Lt: "<", ast.LtE: "≤", ast.Gt: ">", ast.GtE: "≥", ast.Eq: "=", ast.NotEq: "≠"}.get(type(op))
            if sym is None:
                raise Unsupported("comparison %s" % ast.unparse(e))
            return "(%s %s %s)" % (self.iexpr(a, params), sym, self.iexpr(b, params))
        if isinstance(e, ast.BoolOp):
            return "(" + (" ∧ " if isinstance(e.op, ast.And) else " ∨ ").join(self.test(v, params) for v in e.values) + ")"
        if isinstance(e, ast.UnaryOp) and isinstance(e.op, ast.Not):
            return "(¬ %s)" % self.test(e.operand, params)
        raise Unsupported("test %s" % ast.unparse(e))

    def result(self, e, params):
        if e is None:
            return "Py.Res.none"
        if (isinstance(e, ast.Call) and isinstance(e.func, ast.Attribute) and isinstance(e.func.value, ast.Name) and e.func.value.id == "self"
                and not e.keywords):
            callee = e.func.attr
            if callee not in self.names:
                raise Unsupported("call of %s, which is not one of the translated functions (or comes later)" % callee)
            return "(%s%s %s)" % (self.prefix, callee, " ".join(self.iexpr(a, params) for a in e.args))
        return "(Py.Res.ret %s)" % self.iexpr(e, params)

    def body(self, stmts, params):
        """statements -> a Lean term of type Py.Res; returns (term, falls_through)"""
        if not stmts:
            return "Py.Res.none"
        s, rest = stmts[0], stmts[1:]
        if isinstance(s, ast.Expr) and isinstance(s.value, ast.Constant) and isinstance(s.value.value, str):
            return self.body(rest, params)
        if isinstance(s, ast.Pass):
            return self.body(rest, params)
        if isinstance(s, ast.Return):
            return self.result(s.value, params)
        if isinstance(s, ast.Raise):
            return "Py.Res.raised"
        if isinstance(s, ast.If):
            # every branch that does not end in return / raise continues with the statements after the `if`
            def ends(b):
                return bool(b) and isinstance(b[-1], (ast.Return, ast.Raise))
            then = self.body(s.body if ends(s.body) else s.body + rest, params)
            other = self.body((s.orelse if ends(s.orelse) else s.orelse + rest) if s.orelse else rest, params)
            return "(if %s then %s else %s)" % (self.test(s.test, params), then, other)
        raise Unsupported("statement %s" % ast.unparse(s).split("\n")[0])

    def translate(self, names):
        out = []
        for name in names:
            fn = next(n for n in self.cls.body if isinstance(n, ast.FunctionDef) and n.name == name)
            params = [a.arg for a in fn.args.args[1:]]
            if fn.args.defaults or fn.args.vararg or fn.args.kwarg:
                raise Unsupported("%s has default / variable arguments" % name)
            term = self.body(fn.body, params)
            out.append("/-- `%s.%s` (line %d of the source) -/\ndef %s%s %s: Py.Res :=\n  %s\n"
                       % (self.cls.name, name, fn.lineno, self.prefix, name, "".join("(%s : Int) " % p for p in params), term))
            self.names.add(name)
        return "\n".join(out)


# ---------------------------------------------------------------------------------------------------------------------------------------------
# Third mode: functions that APPEND integers to a list handed to them (`def f(self, v, data)`): the integer writers of the encoder.  The body is a
# sequence of `data.append(<int expr>)`, calls `self.g(<int expr>, data)` of functions translated before, if / elif / else, raise.  Result type
# `Py.Out` (Model/PyPrelude.lean): raised | wrote (bs : List Nat) — what was appended, in order.  Integer expressions are natural numbers with Lean's
# own bit operations (`&&&`, `|||`, `>>>`, `<<<`): nothing is rewritten into arithmetic by the translator; the theorems do that.
class AppendFunctions(object):
    def __init__(self, source, classname, prefix, sink="data"):
        self.tree = ast.parse(source)
        self.cls = next(n for n in ast.walk(self.tree) if isinstance(n, ast.ClassDef) and n.name == classname)
        self.prefix = prefix
        self.sink = sink
        self.names = set()

    def nexpr(self, e, params):
        if isinstance(e, ast.Constant) and isinstance(e.value, int) and not isinstance(e.value, bool) and e.value >= 0:
            return "(%d : Nat)" % e.value
        if isinstance(e, ast.Name) and e.id in params:
            return e.id
        if isinstance(e, ast.BinOp):
            op = {ast.Add: "+", ast.BitAnd: "&&&", ast.BitOr: "|||", ast.RShift: ">>>", ast.LShift: "<<<"}.get(type(e.op))
            if op is None:
                raise Unsupported("operator in %s" % ast.unparse(e))
            return "(%s %s %s)" % (self.nexpr(e.left, params), op, self.nexpr(e.right, params))
        raise Unsupported("integer expression %s" % ast.unparse(e))

    def test(self, e, params):
        if isinstance(e, ast.Compare):
            terms, left = [], e.left
            for op, right in zip(e.ops, e.comparators):
                sym = {ast.Lt: "<", ast.LtE: "≤", ast.Gt: ">", ast.GtE: "≥", ast.Eq: "=", ast.NotEq: "≠"}.get(type(op))
                if sym is None:
                    raise Unsupported("comparison %s" % ast.unparse(e))
                terms.append("%s %s %s" % (self.nexpr(left, params), sym, self.nexpr(right, params)))
                left = right
            return "(" + " ∧ ".join(terms) + ")"
        if isinstance(e, ast.BoolOp):
            return "(" + (" ∧ " if isinstance(e.op, ast.And) else " ∨ ").join(self.test(v, params) for v in e.values) + ")"
        raise Unsupported("test %s" % ast.unparse(e))

    def stmt(self, s, params):
        if isinstance(s, ast.Raise):
            return "Py.Out.raised"
        if isinstance(s, ast.Pass) or (isinstance(s, ast.Expr) and isinstance(s.value, ast.Constant)):
            return "(Py.Out.wrote [])"
        if isinstance(s, ast.Expr) and isinstance(s.value, ast.Call) and isinstance(s.value.func, ast.Attribute) and not s.value.keywords:
            f, args = s.value.func, s.value.args
            if isinstance(f.value, ast.Name) and f.value.id == self.sink and f.attr == "append" and len(args) == 1:
                return "(Py.Out.wrote [%s])" % self.nexpr(args[0], params)
            if (isinstance(f.value, ast.Name) and f.value.id == "self" and f.attr in self.names and len(args) >= 1
                    and isinstance(args[-1], ast.Name) and args[-1].id == self.sink):
                return "(%s%s %s)" % (self.prefix, f.attr, " ".join(self.nexpr(a, params) for a in args[:-1]))
        if isinstance(s, ast.If):
            return "(if %s then %s else %s)" % (self.test(s.test, params), self.block(s.body, params), self.block(s.orelse, params))
        raise Unsupported("statement %s" % ast.unparse(s).split("\n")[0])

    def block(self, stmts, params):
        terms = [self.stmt(s, params) for s in stmts]
        if not terms:
            return "(Py.Out.wrote [])"
        out = terms[-1]
        for t in reversed(terms[:-1]):
            out = "(Py.Out.andThen %s %s)" % (t, out)
        return out

    def translate(self, names):
        out = []
        for name in names:
            fn = next(n for n in self.cls.body if isinstance(n, ast.FunctionDef) and n.name == name)
            params = [a.arg for a in fn.args.args[1:]]
            if not params or params[-1] != self.sink or fn.args.defaults:
                raise Unsupported("%s does not take (..., %s)" % (name, self.sink))
            params = params[:-1]
            out.append("/-- `%s.%s` (line %d of the source): what it appends to `%s` -/\ndef %s%s %s: Py.Out :=\n  %s\n"
                       % (self.cls.name, name, fn.lineno, self.sink, self.prefix, name, "".join("(%s : Nat) " % p for p in params), self.block(fn.body, params)))
            self.names.add(name)
        return "\n".join(out)


# ---------------------------------------------------------------------------------------------------------------------------------------------
# Fourth mode: functions that READ integers off the front of a list handed to them (`def f(self, data)` / `def f(self, x, data)`): the integer readers
# of the decoder.  Statements: `x = data.pop(0)` (raises on an empty list), `x = <int expr>`, `x = self.g(..., data)` for a function translated before,
# if / else, `return <int expr>`, `return self.g(..., data)`, raise.  Result type `Py.Rd`: raised | ret (v : Nat) (rest : List Nat) — the value and what is
# left of the list.  `x is not None` for an integer variable is `True`.  Branches are translated in continuation style (the statements after an `if`
# are repeated in both branches), so a variable assigned in the branches is simply the innermost `let`.
class ReadFunctions(AppendFunctions):
    def test(self, e, params):
        if (isinstance(e, ast.Compare) and len(e.ops) == 1 and isinstance(e.ops[0], (ast.IsNot, ast.Is)) and isinstance(e.comparators[0], ast.Constant)
                and e.comparators[0].value is None and isinstance(e.left, ast.Name) and e.left.id in params):
            return "True" if isinstance(e.ops[0], ast.IsNot) else "False"
        return AppendFunctions.test(self, e, params)

    def call(self, e, params):
        """self.g(a, ..., data) -> Lean application, or None"""
        if (isinstance(e, ast.Call) and isinstance(e.func, ast.Attribute) and isinstance(e.func.value, ast.Name) and e.func.value.id == "self"
                and e.func.attr in self.names and e.args and isinstance(e.args[-1], ast.Name) and e.args[-1].id == self.sink and not e.keywords):
            return "(%s%s %s%s)" % (self.prefix, e.func.attr, "".join(self.nexpr(a, params) + " " for a in e.args[:-1]), self.sink)
        return None

    def body(self, stmts, params):
        if not stmts:
            raise Unsupported("a path that falls off the end of the function")
        s, rest = stmts[0], stmts[1:]
        if isinstance(s, ast.Raise):
            return "Py.Rd.raised"
        if isinstance(s, ast.Return):
            c = self.call(s.value, params)
            if c is not None:
                return c
            v = s.value
            if (isinstance(v, ast.Call) and isinstance(v.func, ast.Attribute) and isinstance(v.func.value, ast.Name) and v.func.value.id == self.sink
                    and v.func.attr == "pop" and len(v.args) == 1 and isinstance(v.args[0], ast.Constant) and v.args[0].value == 0):
                return "(match %s with | [] => Py.Rd.raised | popped :: %s => Py.Rd.ret popped %s)" % (self.sink, self.sink, self.sink)
            if isinstance(s.value, ast.Constant) and isinstance(s.value.value, str):
                return "Py.Rd.raised"          # (a string where an integer is expected: no caller can use it — only on paths the theorems show dead)
            return "(Py.Rd.ret %s %s)" % (self.nexpr(s.value, params), self.sink)
        if isinstance(s, ast.Assign) and len(s.targets) == 1 and isinstance(s.targets[0], ast.Name):
            x, v = s.targets[0].id, s.value
            if (isinstance(v, ast.Call) and isinstance(v.func, ast.Attribute) and isinstance(v.func.value, ast.Name) and v.func.value.id == self.sink
                    and v.func.attr == "pop" and len(v.args) == 1 and isinstance(v.args[0], ast.Constant) and v.args[0].value == 0):
                return "(match %s with | [] => Py.Rd.raised | %s :: %s => %s)" % (self.sink, x, self.sink, self.body(rest, params + [x]))
            c = self.call(v, params)
            if c is not None:
                return "(match %s with | Py.Rd.raised => Py.Rd.raised | Py.Rd.ret %s %s => %s)" % (c, x, self.sink, self.body(rest, params + [x]))
            return "(let %s : Nat := %s; %s)" % (x, self.nexpr(v, params), self.body(rest, params + [x]))
        if isinstance(s, ast.If):
            return "(if %s then %s else %s)" % (self.test(s.test, params), self.body(s.body + rest, params), self.body(s.orelse + rest, params))
        if isinstance(s, ast.Pass) or (isinstance(s, ast.Expr) and isinstance(s.value, ast.Constant)):
            return self.body(rest, params)
        raise Unsupported("statement %s" % ast.unparse(s).split("\n")[0])

    def translate(self, names):
        out = []
        for name in names:
            fn = next(n for n in self.cls.body if isinstance(n, ast.FunctionDef) and n.name == name)
            params = [a.arg for a in fn.args.args[1:]]
            if not params or params[-1] != self.sink or fn.args.defaults:
                raise Unsupported("%s does not take (..., %s)" % (name, self.sink))
            params = params[:-1]
            out.append("/-- `%s.%s` (line %d of the source): the value it returns and what it leaves of `%s` -/\ndef %s%s %s(%s : List Nat) : Py.Rd :=\n  %s\n"
                       % (self.cls.name, name, fn.lineno, self.sink, self.prefix, name, "".join("(%s : Nat) " % p for p in params), self.sink,
                          self.body(fn.body, params)))
            self.names.add(name)
        return "\n".join(out)
