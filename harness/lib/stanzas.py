"""Builders: routing descriptor (the fields of Model/Routing.lean's Stanza / Entity) -> real ProtocolTreeNode
/ real protocol entity, and classifiers for what comes out of the real stack."""
import boot  # noqa: F401
from yowsup.structs import ProtocolTreeNode as N

JID = "4915112345@s.whatsapp.net"
DEVJID = "4915112345:7@s.whatsapp.net"
GJID = "4915112345-1500000000@g.us"

TAGS = {"message": "message", "receipt": "receipt", "ack": "ack", "presence": "presence", "chatstate": "chatstate", "call": "call",
        "ib": "ib", "iq": "iq", "notification": "notification", "success": "success", "failure": "failure",
        "streamFeatures": "stream:features", "streamError": "stream:error", "other": "frobnicate"}
# what a contact's status notification carries: a text, nothing at all (the status was cleared), non-ASCII text, bytes that are not UTF-8
STATUS_BODIES = [b"my status", None, u"caf\u00e9 \u4e16\u754c".encode("utf-8"), b"\xff\xfe\x00raw", b""]
NTYPES = {"picture": "picture", "status": "status", "contacts": "contacts", "subject": "subject", "wgp2": "w:gp2", "encrypt": "encrypt",
          "other": "psa"}
XMLNS = {"ping": "urn:xmpp:ping", "wp": "w:p", "push": "urn:xmpp:whatsapp:push", "w": "w", "account": "urn:xmpp:whatsapp:account",
         "encrypt": "encrypt", "last": "jabber:iq:last", "sync": "urn:xmpp:whatsapp:sync", "wm": "w:m", "wg2": "w:g2",
         "profilePicture": "w:profile:picture", "privacy": "privacy", "status": "status", "jabberPrivacy": "jabber:iq:privacy",
         "other": "urn:example:other", "absent": None}
MEDIA = {"absent": None, "image": "image", "sticker": "sticker", "audio": "audio", "ptt": "ptt", "video": "video", "gif": "gif",
         "location": "location", "contact": "contact", "document": "document", "url": "url", "other": "hologram"}

CHILD_FLAGS = ["cSet", "cDelete", "cRemove", "cAdd", "cUpdate", "cSync", "cSubject", "cCreate", "cCount", "cIdentity", "cDirty", "cOffline", "cAccount"]


UNPRESENTABLE = ["image", "contact", "location", "document", "audio", "video", "sticker", "protocol", "call", "future"]


def unpresentable_payload(pseed):
    """a payload kind the messages layer cannot present (anything but text / extended text / a key distribution), with generated
    field values and presence: media kinds arriving without a mediatype attribute, a revoke (protocol message) with any key
    shape — user / group chat, with or without participant, from me or not —, a call"""
    import random
    from corr import c10
    from lib import payloadspec as ps
    from yowsup.layers.protocol_messages.proto.e2e_pb2 import Message
    r = random.Random(pseed)
    kind = UNPRESENTABLE[pseed % len(UNPRESENTABLE)]
    m = Message()
    if kind == "call":
        m.call.call_key = bytes(r.randrange(256) for _ in range(r.randint(1, 8)))
        return m.SerializeToString(), kind
    if kind == "future":
        # a content kind newer than the library's schema (a reaction, a poll: a field number the bundled proto does not have)
        fno = r.choice([46, 49, 60, 1000])
        body = bytes(r.randrange(256) for _ in range(r.randint(1, 12)))
        tag, out = (fno << 3) | 2, bytearray()
        while True:
            out.append((tag & 0x7F) | (0x80 if tag > 0x7F else 0))
            tag >>= 7
            if not tag:
                break
        return bytes(out) + bytes([len(body)]) + body, "future:%d" % fno
    if kind == "protocol":
        k = m.protocol_message.key
        group = r.random() < 0.5
        k.remote_jid = GJID if group else JID
        k.from_me = r.random() < 0.5
        k.id = "3EB0%X" % r.randrange(1 << 40)
        if r.random() < (0.5 if group else 0.2):
            k.participant = JID
        m.protocol_message.type = 0
        return m.SerializeToString(), kind + (":group" if group else ":user") + (":participant" if k.HasField("participant") else "")
    holder = type("H", (), {})()
    req = c10.required_fields(holder)
    spec = c10.gen_spec(r, kind, 1, req)
    if kind == "document":
        spec["file_length"] = list(spec["dl.file_length"])
    mspec = {p_: ["none"] for p_, _t in ps.flat_fields("message")}
    field = [p_ for p_, t in ps.flat_fields("message") if t == "sub:" + kind][0]
    mspec[field] = ["sub", spec]
    try:
        return ps.to_proto("message", c10.build_obj("message", mspec)).SerializeToString(), kind
    except Exception:
        m.call.call_key = b"\x01\x02"
        return m.SerializeToString(), "call"


def with_key_distribution(data):
    """the same payload with a sender key distribution piggy-backed on it (how a participant's first group message travels)"""
    from yowsup.layers.protocol_messages.proto.e2e_pb2 import Message
    m = Message()
    m.ParseFromString(data)
    m.sender_key_distribution_message.group_id = GJID
    m.sender_key_distribution_message.axolotl_sender_key_distribution_message = b"\x33\x08\x01"
    return m.SerializeToString()


TEXTS = [None, "", " ", "0", "line one\nline two", u"gr\u00fc\u00dfe \u20ac", "False"]      # descriptor field "text": index into this list (None = the default body)


def payload_bytes(kind, rng=None, text=None, pseed=None):
    """protobuf payload of a message without mediatype"""
    from yowsup.layers.protocol_messages.proto.e2e_pb2 import Message
    if kind == "other" and pseed is not None:
        return unpresentable_payload(pseed)[0]
    m = Message()
    if kind == "conversation":
        m.conversation = "hello there" if text is None else text
    elif kind == "extendedText":
        m.extended_text_message.text = "see https://example.org" if text is None else text
        m.extended_text_message.matched_text = "https://example.org"
    elif kind == "keyDistributionOnly":
        m.sender_key_distribution_message.group_id = GJID
        m.sender_key_distribution_message.axolotl_sender_key_distribution_message = b"\x33\x08\x01"
    else:
        m.call.call_key = b"\x01\x02"           # a payload kind the library does not present
    return m.SerializeToString()


def media_payload(kind):
    from yowsup.layers.protocol_messages.proto.e2e_pb2 import Message
    m = Message()
    if kind == "image":
        m.image_message.url = "https://mmg.whatsapp.net/d/f/x.enc"
        m.image_message.mimetype = "image/jpeg"
        m.image_message.file_sha256 = b"\x01" * 32
        m.image_message.file_length = 12
        m.image_message.media_key = b"\x02" * 32
        m.image_message.file_enc_sha256 = b"\x03" * 32
        m.image_message.height = 2
        m.image_message.width = 3
        m.image_message.jpeg_thumbnail = b"\xff\xd8"
    elif kind == "sticker":
        m.sticker_message.url = "https://mmg.whatsapp.net/d/f/s.enc"
        m.sticker_message.mimetype = "image/webp"
        m.sticker_message.file_sha256 = b"\x01" * 32
        m.sticker_message.file_length = 12
        m.sticker_message.media_key = b"\x02" * 32
        m.sticker_message.file_enc_sha256 = b"\x03" * 32
        m.sticker_message.height = 2
        m.sticker_message.width = 3
    elif kind in ("audio", "ptt"):
        m.audio_message.url = "https://mmg.whatsapp.net/d/f/a.enc"
        m.audio_message.mimetype = "audio/ogg"
        m.audio_message.file_sha256 = b"\x01" * 32
        m.audio_message.file_length = 12
        m.audio_message.media_key = b"\x02" * 32
        m.audio_message.seconds = 3
        m.audio_message.ptt = kind == "ptt"
    elif kind in ("video", "gif"):
        m.video_message.url = "https://mmg.whatsapp.net/d/f/v.enc"
        m.video_message.mimetype = "video/mp4"
        m.video_message.file_sha256 = b"\x01" * 32
        m.video_message.file_length = 12
        m.video_message.media_key = b"\x02" * 32
        m.video_message.seconds = 3
        m.video_message.height = 2
        m.video_message.width = 3
        m.video_message.gif_playback = kind == "gif"
    elif kind == "document":
        m.document_message.url = "https://mmg.whatsapp.net/d/f/d.enc"
        m.document_message.mimetype = "application/pdf"
        m.document_message.file_sha256 = b"\x01" * 32
        m.document_message.file_length = 12
        m.document_message.media_key = b"\x02" * 32
        m.document_message.title = "t"
        m.document_message.file_name = "f.pdf"
    elif kind == "location":
        m.location_message.degrees_latitude = 52.5
        m.location_message.degrees_longitude = 13.4
        m.location_message.name = "Berlin"
    elif kind == "contact":
        m.contact_message.display_name = "Jane"
        m.contact_message.vcard = b"BEGIN:VCARD\nEND:VCARD"
    elif kind == "url":
        m.extended_text_message.text = "https://example.org"
        m.extended_text_message.matched_text = "https://example.org"
        m.extended_text_message.title = "Example"
    else:
        m.call.call_key = b"\x01"
    return m.SerializeToString()


def build_stanza(d, seq=1):
    """descriptor dict -> ProtocolTreeNode; `lead` / `trail`: an element the library does not know before / after the stanza's own
    children (elements are looked up by name, never by position, so this changes nothing)"""
    node = _build_stanza(d, seq)
    if d.get("dev"):
        # the sender is one DEVICE of the account (user:device@server): whatever is answered goes back to that very address
        attrs = dict(node.attributes)
        for k in ("from", "participant"):
            if attrs.get(k) == JID:
                attrs[k] = DEVJID
        node = N(node.tag, attrs, list(node.getAllChildren()), node.getData())
    if d.get("lead") or d.get("trail"):
        kids = list(node.getAllChildren())
        if d.get("lead"):
            kids.insert(0, N("x-verif-lead", {"v": "1"}))
        if d.get("trail"):
            # `trail` > 1: the unknown element carries that many bytes of data (a stanza is formatted for log lines before it is answered,
            # and the formatting treats data beyond a size limit differently)
            kids.append(N("x-verif-trail", {"v": "2"}, None, bytes((i * 7 + 1) % 256 for i in range(d["trail"])) if d["trail"] > 1 else None))
        node = N(node.tag, dict(node.attributes), kids, node.getData())
    return node


def _build_stanza(d, seq=1):
    tag = d["tag"]
    i = "id-%d" % seq
    if tag == "other":
        return N(TAGS[tag], {"id": i})
    if tag == "receipt":
        attrs = {"id": i, "from": JID, "t": "1500000000"}
        rt = d.get("rtype")
        if rt and rt != "delivery":
            attrs["type"] = rt
        if d.get("participant"):
            attrs["from"] = GJID
            attrs["participant"] = JID
        kids = []
        if rt == "retry":
            kids = [N("retry", {"count": "1", "t": "1500000000", "id": i, "v": "1"}), N("registration", data=b"\x00\x00\x30\x39")]
        elif d.get("rlist"):
            kids = [N("list", {}, [N("item", {"id": i + "-b"})])]
        return N("receipt", attrs, kids)
    if tag == "ack":
        return N("ack", {"id": i, "from": JID, "class": "message", "t": "1500000000"})
    if tag == "presence":
        return N("presence", {"from": JID, "last": "1500000000"})
    if tag == "chatstate":
        return N("chatstate", {"from": JID}, [N("composing")])
    if tag == "call":
        kids = [N("offer", {"call-id": "cid-%d" % seq})] if d.get("callOffer") else [N("terminate", {"call-id": "cid-%d" % seq})]
        return N("call", {"id": i, "from": JID, "t": "1500000000", "notify": "x"}, kids)
    if tag == "ib":
        kids = []
        if d.get("cDirty"):
            kids.append(N("dirty", {"timestamp": "1500000000", "type": "groups"}))
        if d.get("cOffline"):
            kids.append(N("offline", {"count": "3"}))
        if d.get("cAccount"):
            kids.append(N("account", {"status": "paid", "kind": "paid", "creation": "1400000000", "expiration": "1600000000"}))
        if not kids:
            kids.append(N("edge_routing", {}, [N("routing_info", {}, None, b"\x01\x02")]))
        return N("ib", {"from": "s.whatsapp.net"}, kids)
    if tag == "iq":
        attrs = {"id": i, "type": d.get("iqType", "get"), "from": "s.whatsapp.net"}
        if XMLNS[d.get("xmlns", "absent")]:
            attrs["xmlns"] = XMLNS[d["xmlns"]]
        kids = []
        if d.get("cSync"):
            kids.append(N("sync", {"sid": "1.2", "index": "0", "last": "true", "version": "1"},
                          [N("in", {}, [N("user", {"jid": JID}, None, b"+4915112345")])]))
        return N("iq", attrs, kids)
    if tag in ("success", "failure", "streamFeatures"):
        if tag == "success":
            return N("success", {"t": "1500000000", "props": "4", "kind": "free", "status": "active", "creation": "1400000000", "expiration": "1600000000"})
        if tag == "failure":
            return N("failure", {"reason": "401"})
        return N("stream:features", {}, [])
    if tag == "streamError":
        return N("stream:error", {}, [N("conflict"), N("text", {}, None, b"Replaced by new connection")] if d.get("errKnown") else [N("system-shutdown")])
    if tag == "notification":
        nt = d.get("ntype", "other")
        attrs = {"id": i, "from": GJID if nt in ("wgp2",) else JID, "type": NTYPES[nt], "t": "1500000000", "notify": "pn"}
        if d.get("participant", True):
            attrs["participant"] = "4915100000@s.whatsapp.net"
        kids = []
        if d.get("cSet"):
            if nt == "status":
                kids.append(N("set", {}, None, STATUS_BODIES[d.get("body", 0) % len(STATUS_BODIES)]))
            else:
                kids.append(N("set", {"jid": JID, "id": "1400000000"}))
        if d.get("cDelete"):
            kids.append(N("delete", {"jid": JID}))
        if nt == "status" and not d.get("cSet"):
            kids.append(N("set", {}, None, STATUS_BODIES[d.get("body", 0) % len(STATUS_BODIES)]))
        if d.get("cRemove"):
            kids.append(N("remove", {"jid": JID, "subject": "s"}, [N("participant", {"jid": JID})]))
        if d.get("cAdd"):
            kids.append(N("add", {"jid": JID}, [N("participant", {"jid": JID})]))
        if d.get("cUpdate"):
            kids.append(N("update", {"jid": JID}))
        if d.get("cSync"):
            kids.append(N("sync", {"after": "1500000000"}))
        if d.get("cSubject"):
            kids.append(N("subject", {"subject": "new", "s_t": "1500000000", "s_o": JID}))
        if d.get("cCreate"):
            kids.append(N("create", {"type": "new", "key": "4915112345-key@temp"},
                          [N("group", {"id": "4915112345-1500000000", "creator": JID, "creation": "1500000000", "subject": "g",
                                       "s_t": "1500000000", "s_o": JID}, [N("participant", {"jid": JID, "type": "superadmin"})])]))
        if d.get("cCount"):
            kids.append(N("count", {"value": "9"}))
        if d.get("cIdentity"):
            kids.append(N("identity"))
        return N("notification", attrs, kids)
    if tag == "message":
        mt = d.get("mtype", "other")
        attrs = {"id": i, "from": JID, "t": "1500000000", "notify": "pn", "type": {"text": "text", "media": "media", "other": "frob"}[mt]}
        if d.get("participant"):
            attrs["from"] = GJID
            attrs["participant"] = JID
        kids = []
        if d.get("hasProto"):
            media = d.get("media", "absent")
            pattrs = {}
            if MEDIA[media]:
                pattrs["mediatype"] = MEDIA[media]
                # the envelope's media type says nothing about the payload: a key distribution on its own travels under any of them
                data = payload_bytes("keyDistributionOnly") if d.get("payload") == "keyDistributionOnly" else media_payload(media)
            else:
                data = payload_bytes(d.get("payload", "other"), pseed=d.get("pseed"), text=TEXTS[d.get("text", 0)])
            if d.get("skdm") and d.get("payload") != "keyDistributionOnly":
                data = with_key_distribution(data)
            kids.append(N("proto", pattrs, None, data))
        return N("message", attrs, kids)
    raise ValueError(tag)


ENT_NAMES = {
    "SuccessProtocolEntity": "success", "FailureProtocolEntity": "failure", "StreamFeaturesProtocolEntity": "streamFeatures",
    "StreamErrorProtocolEntity": "streamError", "TextMessageProtocolEntity": "text", "ExtendedTextMessageProtocolEntity": "extendedText",
    "ImageDownloadableMediaMessageProtocolEntity": "image", "StickerDownloadableMediaMessageProtocolEntity": "sticker",
    "AudioDownloadableMediaMessageProtocolEntity": "audio", "VideoDownloadableMediaMessageProtocolEntity": "video",
    "LocationMediaMessageProtocolEntity": "location", "ContactMediaMessageProtocolEntity": "contact",
    "DocumentDownloadableMediaMessageProtocolEntity": "document", "ExtendedTextMediaMessageProtocolEntity": "extendedTextMedia",
    "IncomingReceiptProtocolEntity": "receipt", "IncomingAckProtocolEntity": "ack", "PresenceProtocolEntity": "presence",
    "IncomingChatstateProtocolEntity": "chatstate", "CallProtocolEntity": "call", "DirtyIbProtocolEntity": "ibDirty",
    "OfflineIbProtocolEntity": "ibOffline", "AccountIbProtocolEntity": "ibAccount", "ResultSyncIqProtocolEntity": "syncResult",
    "SetPictureNotificationProtocolEntity": "pictureSet", "DeletePictureNotificationProtocolEntity": "pictureDelete",
    "StatusNotificationProtocolEntity": "statusNotification", "RemoveContactNotificationProtocolEntity": "contactRemove",
    "AddContactNotificationProtocolEntity": "contactAdd", "UpdateContactNotificationProtocolEntity": "contactUpdate",
    "ContactsSyncNotificationProtocolEntity": "contactsSync", "SubjectGroupsNotificationProtocolEntity": "groupSubject",
    "CreateGroupsNotificationProtocolEntity": "groupCreate", "RemoveGroupsNotificationProtocolEntity": "groupRemove",
    "AddGroupsNotificationProtocolEntity": "groupAdd",
}


def classify_down(node, src=None):
    """stanza sent back down -> the model's Down constructor (+ detail for the oracle)"""
    if node.tag == "ack":
        if node["class"] == "notification":
            return "notificationAck:%d" % (1 if (src is None or src["participant"] is None or node["participant"] == src["participant"]) else 0)
        if node["class"] == "call":
            return "callAck"
        return "ack:" + str(node["class"])
    if node.tag == "receipt":
        if node.getChild("offer") is not None:
            return "callReceipt"
        return "messageReadReceipt" if node["type"] == "read" else "messageReceipt"
    if node.tag == "iq" and node["type"] == "result":
        return "pong"
    return "stanza:" + node.tag
