"""Independent implementation of the WhatsApp binary-XML frame format (reference encoder driven
by a choice source, reference decoder), written from the format description, not from yowsup's
code.  Uses the committed reference copy of the token dictionary (lib/ref_tokens.json)."""
import json
import os
import zlib

_T = json.load(open(os.path.join(os.path.dirname(__file__), "ref_tokens.json")))
PRIMARY, SECONDARY = _T["primary"], _T["secondary"]
P_INDEX = {w: i for i, w in enumerate(PRIMARY)}
S_INDEX = {w: i for i, w in enumerate(SECONDARY)}
NIBBLE = "0123456789-."
HEXC = "0123456789ABCDEF"


class FormatError(Exception):
    pass


# ----------------------------------------------------------------------------- decoder

class _In(object):
    def __init__(self, b):
        self.b = bytes(b)
        self.i = 0

    def u8(self):
        if self.i >= len(self.b):
            raise FormatError("eof")
        v = self.b[self.i]
        self.i += 1
        return v

    def take(self, n):
        if self.i + n > len(self.b):
            raise FormatError("short")
        v = self.b[self.i:self.i + n]
        self.i += n
        return v


def _list_size(inp, t):
    if t == 0:
        return 0
    if t == 248:
        return inp.u8()
    if t == 249:
        return (inp.u8() << 8) | inp.u8()
    raise FormatError("list tag %d" % t)


def _length(inp, t):
    if t == 252:
        return inp.u8()
    if t == 253:
        a, b, c = inp.u8(), inp.u8(), inp.u8()
        return ((a & 15) << 16) | (b << 8) | c
    if t == 254:
        a, b, c, d = inp.u8(), inp.u8(), inp.u8(), inp.u8()
        return ((a & 127) << 24) | (b << 16) | (c << 8) | d
    raise FormatError("len tag")


def _packed(inp, t):
    h = inp.u8()
    n = h & 127
    raw = inp.take(n)
    alphabet = NIBBLE if t == 255 else HEXC
    out = []
    for by in raw:
        for v in (by >> 4, by & 15):
            out.append(v)
    if h & 128:
        if not out or out[-1] != 15:
            raise FormatError("odd packed without pad")
        out.pop()
    try:
        return "".join(alphabet[v] for v in out)
    except IndexError:
        raise FormatError("bad packed digit")


def _string(inp, t, allow_none=False):
    if t == 0:
        if allow_none:
            return None
        raise FormatError("empty token")
    if 3 <= t < 236:
        if t >= len(PRIMARY):
            raise FormatError("token")
        return PRIMARY[t]
    if 236 <= t <= 239:
        j = (t - 236) * 256 + inp.u8()
        if j >= len(SECONDARY):
            raise FormatError("token2")
        return SECONDARY[j]
    if t == 250:
        user = _string(inp, inp.u8(), allow_none=True)
        server = _string(inp, inp.u8())
        return server if user is None else user + "@" + server
    if t in (251, 255):
        return _packed(inp, t)
    if t in (252, 253, 254):
        return inp.take(_length(inp, t)).decode("latin-1")
    raise FormatError("string tag %d" % t)


def _node(inp):
    n = _list_size(inp, inp.u8())
    if n == 0:
        raise FormatError("empty node")
    tag = _string(inp, inp.u8())
    attrs = []
    for _ in range((n - 1) // 2):
        k = _string(inp, inp.u8())
        v = _string(inp, inp.u8())
        attrs.append((k, v))
    data, kids = None, []
    if n % 2 == 0:
        t = inp.u8()
        if t in (0, 248, 249):
            kids = [_node(inp) for _ in range(_list_size(inp, t))]
        elif t in (252, 253, 254):
            data = inp.take(_length(inp, t))
        else:
            data = _string(inp, t).encode("latin-1")
    return (tag, attrs, data, kids)


def decode(frame):
    frame = bytes(frame)
    if not frame:
        raise FormatError("empty")
    body = frame[1:]
    if frame[0] & 2:
        try:
            body = zlib.decompress(body)
        except zlib.error:
            raise FormatError("zlib")
    elif frame[0] & 1:
        raise FormatError("segmented")
    inp = _In(body)
    return _node(inp)


# ----------------------------------------------------------------------------- encoder

def _enc_len(n, r, out):
    forms = []
    if n < 256:
        forms.append(252)
    if n < (1 << 20):
        forms.append(253)
    forms.append(254)
    f = forms[0] if r is None else r.choice(forms if r.random() < 0.5 else forms[:1])
    out.append(f)
    if f == 252:
        out.append(n)
    elif f == 253:
        out += [n >> 16, (n >> 8) & 255, n & 255]
    else:
        out += [n >> 24, (n >> 16) & 255, (n >> 8) & 255, n & 255]
    return f


def _enc_list(n, r, out, allow_zero_tag=True):
    if n == 0 and allow_zero_tag and (r is None or r.random() < 0.7):
        out.append(0)
    elif n < 256 and (r is None or r.random() < 0.7) and n > 0:
        out += [248, n]
    elif n == 0:
        out.append(0)
    else:
        out += [249, n >> 8, n & 255]


def _enc_string(s, r, out, hits, depth=0):
    """any permitted form of string s (non-empty)"""
    forms = ["raw"]
    if P_INDEX.get(s, 0) >= 3:
        forms.append("tok")
    if s in S_INDEX:
        forms.append("tok2")
    if 0 < len(s) <= 254 - (len(s) % 2) and all(c in NIBBLE for c in s):
        forms.append("nib")
    if 0 < len(s) <= 254 - (len(s) % 2) and all(c in HEXC for c in s):
        forms.append("hex")
    if "@" in s and depth < 6:
        forms.append("jid")
    forms.append("jid0")
    if r is None:
        f = "tok" if "tok" in forms else "tok2" if "tok2" in forms else "raw"
    else:
        pref = [x for x in forms if x not in ("raw", "jid0")]
        f = r.choice(pref) if pref and r.random() < 0.7 else r.choice(forms if depth < 3 else [x for x in forms if x != "jid0"])
    hits.append("str:" + f)
    if f == "raw":
        b = s.encode("latin-1")
        _enc_len(len(b), r, out)
        out += b
    elif f == "tok":
        out.append(P_INDEX[s])
    elif f == "tok2":
        j = S_INDEX[s]
        out += [236 + j // 256, j % 256]
    elif f in ("nib", "hex"):
        al = NIBBLE if f == "nib" else HEXC
        vals = [al.index(c) for c in s]
        odd = len(vals) % 2
        if odd:
            vals.append(15)
        out += [255 if f == "nib" else 251, (odd << 7) | (len(vals) // 2)]
        out += [(vals[i] << 4) | vals[i + 1] for i in range(0, len(vals), 2)]
    elif f == "jid":
        ats = [i for i, c in enumerate(s) if c == "@"]
        # (either part may be empty: it is then written as an empty literal — 252 0 —, which is not the "no user" marker 0)
        cand = list(ats)
        if not cand:
            hits.pop()
            return _raw(s, r, out, hits)
        i = r.choice(cand)
        out.append(250)
        for part in (s[:i], s[i + 1:]):
            if part == "":
                hits.append("str:empty-jid-part")
                out += [252, 0]
            else:
                _enc_string(part, r, out, hits, depth + 1)
    elif f == "jid0":
        out += [250, 0]
        _enc_string(s, r, out, hits, depth + 1)


def _raw(s, r, out, hits):
    hits.append("str:raw")
    b = s.encode("latin-1")
    _enc_len(len(b), r, out)
    out += b


def _enc_node(node, r, out, hits):
    tag, attrs, data, kids = node
    has = 1 if (data is not None or kids) else 0
    n = 1 + 2 * len(attrs) + has
    if n >= 65536:
        raise FormatError("too many attributes")
    if n < 256 and (r is None or r.random() < 0.7):
        out += [248, n]
    else:
        out += [249, n >> 8, n & 255]
        hits.append("hdr16")
    _enc_string(tag, r, out, hits)
    for k, v in attrs:
        _enc_string(k, r, out, hits)
        _enc_string(v, r, out, hits)
    if data is not None:
        if r is not None and len(data) > 0 and len(data) < 300 and r.random() < 0.4:
            hits.append("content:string")
            _enc_string(data.decode("latin-1"), r, out, hits)
        else:
            f = _enc_len(len(data), r, out)
            hits.append("content:bin%d" % f)
            out += data
    elif kids:
        if len(kids) >= 65536:
            raise FormatError("too many children")
        _enc_list(len(kids), r, out, allow_zero_tag=False)
        for k in kids:
            _enc_node(k, r, out, hits)


def encode(node, r=None, deflate=False):
    """reference encoding; r = random.Random choice source (None: canonical choices)"""
    out, hits = [], []
    _enc_node(node, r, out, hits)
    body = bytes(bytearray(out))
    if deflate:
        hits.append("deflate")
        return bytes([2]) + zlib.compress(body), hits
    return bytes([0]) + body, hits
