"""Message payloads for the simulation: token -> (entity for the sending application, canonical bytes)."""
import boot  # noqa: F401

KINDS = ["text", "text", "exttext", "image", "location", "contact", "url", "empty"]


def kind_of(token):
    return KINDS[token % len(KINDS)]


def is_media(token):
    return kind_of(token) in ("image", "location", "contact", "url")


def build(token, meta):
    """the entity an application would send for content token `token`"""
    from yowsup.layers.protocol_media.protocolentities import (ContactMediaMessageProtocolEntity, ExtendedTextMediaMessageProtocolEntity,
                                                               ImageDownloadableMediaMessageProtocolEntity, LocationMediaMessageProtocolEntity)
    from yowsup.layers.protocol_messages.protocolentities import ExtendedTextMessageProtocolEntity, TextMessageProtocolEntity
    from yowsup.layers.protocol_messages.protocolentities.attributes.attributes_contact import ContactAttributes
    from yowsup.layers.protocol_messages.protocolentities.attributes.attributes_downloadablemedia import DownloadableMediaMessageAttributes
    from yowsup.layers.protocol_messages.protocolentities.attributes.attributes_extendedtext import ExtendedTextAttributes
    from yowsup.layers.protocol_messages.protocolentities.attributes.attributes_image import ImageAttributes
    from yowsup.layers.protocol_messages.protocolentities.attributes.attributes_location import LocationAttributes
    k = kind_of(token)
    tag = "tok%d" % token
    # every other extended text / link / image is a REPLY: its context names the stanza answered and carries the quoted message (a message inside
    # the message: the converter works on both while it builds the payload); the kind of a token stays what it was
    ctx = None
    if k in ("exttext", "url", "image") and (token // len(KINDS)) % 2 == 1:
        from yowsup.layers.protocol_messages.protocolentities.attributes.attributes_context_info import ContextInfoAttributes
        from yowsup.layers.protocol_messages.protocolentities.attributes.attributes_message import MessageAttributes
        ctx = ContextInfoAttributes(stanza_id="Q%d" % token, participant="4915500009@s.whatsapp.net",
                                    quoted_message=MessageAttributes(conversation=u"the words answered, quoted-%s" % tag))
    if k == "empty":
        return TextMessageProtocolEntity(u"", meta)
    if k == "text":
        return TextMessageProtocolEntity(u"body é世 %s secret-%s" % (tag, tag), meta)
    if k == "exttext":
        return ExtendedTextMessageProtocolEntity(
            ExtendedTextAttributes(u"see http://x.example/%s secret-%s" % (tag, tag), "http://x.example/" + tag, "http://x.example/c/" + tag,
                                   "descr " + tag, "title " + tag, b"\xff\xd8thumb" + tag.encode(), ctx), meta)
    if k == "url":
        return ExtendedTextMediaMessageProtocolEntity(
            ExtendedTextAttributes(u"link http://y.example/%s secret-%s" % (tag, tag), "http://y.example/" + tag, "http://y.example/c/" + tag,
                                   "d " + tag, "t " + tag, b"\xff\xd8th" + tag.encode(), ctx), meta)
    if k == "image":
        dl = DownloadableMediaMessageAttributes("image/jpeg", 1000 + token, bytes([token % 256]) * 32, "https://mmg.example/" + tag, bytes([(token + 1) % 256]) * 32, ctx)
        return ImageDownloadableMediaMessageProtocolEntity(ImageAttributes(dl, 640 + token, 480, "caption secret-" + tag, b"\xff\xd8jpeg" + tag.encode()), meta)
    if k == "location":
        # (every third location lies on the equator / the prime meridian: coordinates that are exactly zero)
        lat, lon = [(52.5 + token / 1000.0, 13.25), (0.0, 36.75 + token / 1000.0), (-1.25, 0.0)][(token // len(KINDS)) % 3]
        return LocationMediaMessageProtocolEntity(LocationAttributes(lat, lon, "place secret-" + tag, "addr " + tag, "http://m.example/" + tag), meta)
    return ContactMediaMessageProtocolEntity(ContactAttributes("name secret-" + tag, ("BEGIN:VCARD\nFN:secret-%s\nEND:VCARD" % tag).encode()), meta)


def secrets(token):
    """byte strings that must never appear in a stanza leaving a client"""
    tag = "tok%d" % token
    return [("secret-" + tag).encode()]


def canon(entity):
    """canonical bytes of the content an application was shown / asked to send"""
    from yowsup.layers.protocol_messages.protocolentities.attributes.converter import AttributesConverter
    try:
        m = AttributesConverter.get().message_to_proto(entity.message_attributes)
        m.ClearField("sender_key_distribution_message")       # key material riding along is not content
        return bytes(m.SerializeToString())
    except Exception as e:
        return ("<unserialisable %s>" % type(e).__name__).encode()


def content(entity):
    """what the application composed / was shown, read off the attribute objects themselves (independent of the library's converter, whose
    slips would otherwise cancel out on both sides of a comparison): nested (class, sorted fields) tuples"""
    def walk(o, depth=0):
        if o is None or isinstance(o, (bool, int, float, str, bytes)):
            return o
        if isinstance(o, bytearray):
            return bytes(o)
        if isinstance(o, (list, tuple)):
            return tuple(walk(x, depth + 1) for x in o)
        if isinstance(o, dict):
            return tuple(sorted((str(k), walk(v, depth + 1)) for k, v in o.items()))
        if depth > 12:
            return "<deep>"
        d = getattr(o, "__dict__", None)
        if d is None:
            return repr(o)
        return (type(o).__name__, tuple(sorted((k.lstrip("_"), walk(v, depth + 1)) for k, v in d.items()
                                               if k.lstrip("_") not in ("sender_key_distribution_message",))))
    return walk(getattr(entity, "message_attributes", None))
