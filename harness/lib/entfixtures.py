"""Documented-shape stanzas for protocol entity classes.
Sources: (1) the repository's own fixture modules (ProtocolEntityTest subclasses: `setUp` builds `self.node` and names
`self.ProtocolEntity`) — harvested at run time, never copied; (2) EXTRA below: for classes without a fixture module, a
stanza of the shape documented in the class's docstring, built by hand."""
import glob
import importlib
import inspect
import os
import unittest

import boot  # noqa: F401
from core import REPO


def N(tag, attrs=None, children=None, data=None):
    from yowsup.structs import ProtocolTreeNode
    return ProtocolTreeNode(tag, attrs or {}, children, data)


def entity_classes():
    """every class in a protocolentities package that defines its own fromProtocolTreeNode"""
    from yowsup.structs import ProtocolEntity
    out = {}
    for path in sorted(glob.glob(os.path.join(REPO, "yowsup/layers/*/protocolentities/*.py"))):
        base = os.path.basename(path)
        if base.startswith("test_") or base == "__init__.py":
            continue
        mod = path[len(REPO) + 1:-3].replace("/", ".")
        try:
            m = importlib.import_module(mod)
        except Exception:
            continue
        for n, c in inspect.getmembers(m, inspect.isclass):
            if issubclass(c, ProtocolEntity) and c.__module__ == mod and "fromProtocolTreeNode" in c.__dict__:
                out[short(c)] = c
    return out


def short(c):
    return (c.__module__ + "." + c.__name__).replace("yowsup.layers.", "").replace(".protocolentities.", ":")


def repo_fixtures():
    out = {}
    for path in sorted(glob.glob(os.path.join(REPO, "yowsup/layers/*/protocolentities/test_*.py"))):
        mod = path[len(REPO) + 1:-3].replace("/", ".")
        try:
            m = importlib.import_module(mod)
        except Exception:
            continue
        for n, c in inspect.getmembers(m, inspect.isclass):
            if issubclass(c, unittest.TestCase) and c.__module__ == mod:
                try:
                    t = c("test_generation") if hasattr(c, "test_generation") else c()
                    t.setUp()
                    out[short(t.ProtocolEntity)] = (t.ProtocolEntity, t.node)
                except Exception:
                    pass
    return out


J1, J2, G1 = "4915225251111@s.whatsapp.net", "4915225252222@s.whatsapp.net", "4915225251111-1400000000@g.us"


def _extra():
    """classes without a fixture module: (class path, stanza builder)"""
    E = {}

    def add(name, fn):
        E[name] = fn
    add("auth:stream_error.StreamErrorProtocolEntity", lambda: N("stream:error", {}, [N("conflict"), N("text", data=b"Replaced by new connection")]))
    add("auth:stream_features.StreamFeaturesProtocolEntity", lambda: N("stream:features", {}, [N("readreceipts"), N("groups_v2"), N("privacy")]))
    add("axolotl:enc.EncProtocolEntity", lambda: N("enc", {"type": "msg", "v": "2", "mediatype": "image"}, data=b"\x33\x0a\x21\x05ciphertext"))
    add("axolotl:message_encrypted.EncryptedMessageProtocolEntity",
        lambda: N("message", {"from": J1, "t": "1418906418", "type": "text", "id": "1418906377-1", "notify": "Someone"},
                  [N("enc", {"type": "pkmsg", "v": "2"}, data=b"\x33\x08\x01\x12\x21\x05abcdef")]))
    add("axolotl:notification_encrypt_identitychange.IdentityChangeEncryptNotification",
        lambda: N("notification", {"from": J1, "t": "1418906418", "type": "encrypt", "id": "3250378482", "notify": "Someone", "offline": "0"}, [N("identity")]))
    add("axolotl:receipt_incoming_retry.RetryIncomingReceiptProtocolEntity",
        lambda: N("receipt", {"from": J1, "t": "1432833777", "type": "retry", "id": "1415389947-12"},
                  [N("retry", {"count": "1", "t": "1432833266", "id": "1415389947-12", "v": "1"}), N("registration", data=b"\x7a\x9c\xec\x4b")]))
    add("axolotl:receipt_outgoing_retry.RetryOutgoingReceiptProtocolEntity",
        lambda: N("receipt", {"to": J1, "type": "retry", "id": "1415389947-12"},
                  [N("retry", {"count": "1", "t": "1432833266", "id": "1415389947-12", "v": "1"}), N("registration", data=b"\x7a\x9c\xec\x4b")]))
    add("protocol_groups:iq_groups_participants_add_failure.FailureAddParticipantsIqProtocolEntity",
        lambda: N("iq", {"type": "error", "from": G1, "id": "77"}, [N("error", {"text": "item-not-found", "code": "404"})]))
    add("protocol_acks:ack.AckProtocolEntity", lambda: N("ack", {"class": "receipt", "id": "1415389947-12"}))
    add("protocol_chatstate:chatstate.ChatstateProtocolEntity", lambda: N("chatstate", {}, [N("composing")]))
    add("protocol_contacts:notification_contact.ContactNotificationProtocolEntity",
        lambda: N("notification", {"from": J1, "t": "1420402514", "type": "contacts", "id": "4174521704", "notify": "Someone", "offline": "0"}))
    add("protocol_contacts:notificiation_contacts_sync.ContactsSyncNotificationProtocolEntity",
        lambda: N("notification", {"from": J1, "t": "1420402514", "type": "contacts", "id": "4174521704", "notify": "Someone", "offline": "0"},
                  [N("sync", {"after": "1420402514"})]))
    add("protocol_groups:iq_groups_info.InfoGroupsIqProtocolEntity",
        lambda: N("iq", {"id": "1", "type": "get", "to": G1, "xmlns": "w:g2"}, [N("query", {"request": "interactive"})]))
    add("protocol_groups:iq_groups_leave.LeaveGroupsIqProtocolEntity",
        lambda: N("iq", {"id": "1", "type": "set", "to": "g.us", "xmlns": "w:g2"}, [N("leave", {"action": "delete"}, [N("group", {"id": G1})])]))
    add("protocol_groups:iq_groups_participants_add.AddParticipantsIqProtocolEntity",
        lambda: N("iq", {"id": "1", "type": "set", "to": G1, "xmlns": "w:g2"}, [N("add", {}, [N("participant", {"jid": J1}), N("participant", {"jid": J2})])]))
    add("protocol_groups:iq_groups_participants_remove.RemoveParticipantsIqProtocolEntity",
        lambda: N("iq", {"id": "1", "type": "set", "to": G1, "xmlns": "w:g2"}, [N("remove", {}, [N("participant", {"jid": J1}), N("participant", {"jid": J2})])]))
    add("protocol_groups:iq_groups_participants_promote.PromoteParticipantsIqProtocolEntity",
        lambda: N("iq", {"id": "1", "type": "set", "to": G1, "xmlns": "w:g2"}, [N("promote", {}, [N("participant", {"jid": J1})])]))
    add("protocol_groups:iq_groups_participants_demote.DemoteParticipantsIqProtocolEntity",
        lambda: N("iq", {"id": "1", "type": "set", "to": G1, "xmlns": "w:g2"}, [N("demote", {}, [N("participant", {"jid": J1})])]))
    add("protocol_groups:iq_groups_subject.SubjectGroupsIqProtocolEntity",
        lambda: N("iq", {"id": "1", "type": "set", "to": G1, "xmlns": "w:g2"}, [N("subject", data=b"new subject")]))
    add("protocol_groups:iq_result_groups_info.InfoGroupsResultIqProtocolEntity",
        lambda: N("iq", {"id": "1", "type": "result", "from": G1},
                  [N("group", {"subject": "subj", "creation": "1400000000", "creator": J1, "s_t": "1400000001", "s_o": J1, "id": "4915225251111-1400000000"},
                     [N("participant", {"jid": J1, "type": "admin"}), N("participant", {"jid": J2})])]))
    add("protocol_groups:iq_result_participants_list.ListParticipantsResultIqProtocolEntity",
        lambda: N("iq", {"id": "1", "type": "result", "from": G1}, [N("participant", {"jid": J1}), N("participant", {"jid": J2})]))
    add("protocol_groups:iq_groups_participants_add_success.SuccessAddParticipantsIqProtocolEntity",
        lambda: N("iq", {"id": "1", "type": "result", "from": G1}, [N("add", {"type": "success", "participant": J1}), N("add", {"type": "success", "participant": J2})]))
    add("protocol_groups:iq_groups_participants_remove_success.SuccessRemoveParticipantsIqProtocolEntity",
        lambda: N("iq", {"id": "1", "type": "result", "from": G1}, [N("remove", {"type": "success", "participant": J1})]))
    add("protocol_groups:iq_groups_leave_success.SuccessLeaveGroupsIqProtocolEntity",
        lambda: N("iq", {"id": "1", "type": "result", "from": "g.us"}, [N("leave", {}, [N("group", {"id": G1})])]))
    add("protocol_groups:notification_groups_subject.SubjectGroupsNotificationProtocolEntity",
        lambda: N("notification", {"notify": "Someone", "id": "2330340631", "t": "1420402514", "participant": J1, "from": G1, "type": "w:gp2", "offline": "0"},
                  [N("subject", {"s_t": "1420402514", "s_o": J1, "subject": "new subject"})]))
    add("protocol_groups:notification_groups_add.AddGroupsNotificationProtocolEntity",
        lambda: N("notification", {"notify": "Someone", "id": "2330340631", "t": "1420402514", "participant": J1, "from": G1, "type": "w:gp2", "offline": "0"},
                  [N("add", {}, [N("participant", {"jid": J2})])]))
    add("protocol_groups:notification_groups_remove.RemoveGroupsNotificationProtocolEntity",
        lambda: N("notification", {"notify": "Someone", "id": "2330340631", "t": "1420402514", "participant": J1, "from": G1, "type": "w:gp2", "offline": "0"},
                  [N("remove", {"subject": "subj"}, [N("participant", {"jid": J2})])]))
    add("protocol_groups:notification_groups_create.CreateGroupsNotificationProtocolEntity",
        lambda: N("notification", {"notify": "Someone", "id": "2330340631", "t": "1420402514", "participant": J1, "from": G1, "type": "w:gp2", "offline": "0"},
                  [N("create", {"type": "new", "key": "k1"},
                     [N("group", {"id": "4915225251111-1400000000", "creator": J1, "creation": "1400000000", "subject": "subj", "s_o": J1, "s_t": "1400000001"},
                        [N("participant", {"jid": J1, "type": "admin"}), N("participant", {"jid": J2})])])]))
    add("protocol_ib:account_ib.AccountIbProtocolEntity",
        lambda: N("ib", {"from": "s.whatsapp.net"}, [N("account", {"status": "active", "kind": "free", "creation": "1400000000", "expiration": "1500000000"})]))
    add("protocol_messages:proto.ProtoProtocolEntity", lambda: N("proto", {"mediatype": "image"}, data=b"\x0a\x05hello"))
    add("protocol_presence:iq_lastseen.LastseenIqProtocolEntity",
        lambda: N("iq", {"id": "1", "type": "get", "to": J1, "xmlns": "jabber:iq:last"}, [N("query")]))
    add("protocol_presence:iq_lastseen_result.ResultLastseenIqProtocolEntity",
        lambda: N("iq", {"id": "1", "type": "result", "from": J1}, [N("query", {"seconds": "1234"})]))
    add("protocol_privacy:privacylist_iq.PrivacyListIqProtocolEntity",
        lambda: N("iq", {"id": "1", "type": "get", "xmlns": "jabber:iq:privacy"}, [N("query", {}, [N("list", {"name": "default"})])]))
    add("protocol_profiles:iq_picture_get.GetPictureIqProtocolEntity",
        lambda: N("iq", {"id": "1", "type": "get", "to": J1, "xmlns": "w:profile:picture"}, [N("picture", {"type": "image"})]))
    add("protocol_profiles:iq_picture_get_result.ResultGetPictureIqProtocolEntity",
        lambda: N("iq", {"id": "1", "type": "result", "from": J1}, [N("picture", {"type": "image", "id": "1400000000"}, data=b"\xff\xd8\xff\xe0jpegdata")]))
    add("protocol_profiles:iq_picture_set.SetPictureIqProtocolEntity",
        lambda: N("iq", {"id": "1", "type": "set", "to": J1, "xmlns": "w:profile:picture"},
                  [N("picture", {"type": "image"}, data=b"\xff\xd8big"), N("picture", {"type": "preview"}, data=b"\xff\xd8small")]))
    add("protocol_profiles:iq_pictures_list.ListPicturesIqProtocolEntity",
        lambda: N("iq", {"id": "1", "type": "get", "xmlns": "w:profile:picture"}, [N("list", {}, [N("user", {"jid": J1}), N("user", {"jid": J2})])]))
    add("protocol_profiles:iq_statuses_get.GetStatusesIqProtocolEntity",
        lambda: N("iq", {"id": "1", "type": "get", "to": "s.whatsapp.net", "xmlns": "status"}, [N("status", {}, [N("user", {"jid": J1}), N("user", {"jid": J2})])]))
    add("protocol_profiles:iq_statuses_result.ResultStatusesIqProtocolEntity",
        lambda: N("iq", {"id": "1", "type": "result", "from": "s.whatsapp.net"},
                  [N("status", {}, [N("user", {"jid": J1, "t": "1400000000"}, data=b"Hey there"), N("user", {"jid": J2, "t": "1400000001"}, data=b"busy")])]))
    add("protocol_receipts:receipt.ReceiptProtocolEntity", lambda: N("receipt", {"id": "1415389947-12"}))
    add("protocol_contacts:iq_sync.SyncIqProtocolEntity",
        lambda: N("iq", {"id": "1", "type": "get", "xmlns": "urn:xmpp:whatsapp:sync"}, [N("sync", {"sid": "130000000000000000", "index": "0", "last": "true"})]))
    add("axolotl:iq_keys_set.SetKeysIqProtocolEntity",
        lambda: N("iq", {"id": "1", "type": "set", "to": "s.whatsapp.net", "xmlns": "encrypt"},
                  [N("list", {}, [N("key", {}, [N("id", data=b"\x00\x00\x01"), N("value", data=b"k" * 32)]), N("key", {}, [N("id", data=b"\x00\x00\x02"), N("value", data=b"l" * 32)])]),
                   N("identity", data=b"i" * 32), N("registration", data=b"\x00\x00\x12\x34"), N("type", data=b"\x05"),
                   N("skey", {}, [N("id", data=b"\x00\x00\x01"), N("value", data=b"s" * 32), N("signature", data=b"g" * 64)])]))
    return E


_DOC_VALUES = {"from": J2, "participant": J2,      # (no "to": a stanza from the server is not addressed)
               "t": "1432833777", "offline": "1", "retry": "1", "last": "1432833000", "wait": "166952",
               "backoff": "3600", "e": "0", "mode": "delete", "mediatype": "image", "id": "77"}


def _walk(node):
    yield node
    for c in node.getAllChildren():
        for x in _walk(c):
            yield x


def _clone(n):
    return N(n.tag, dict(n.attributes), [_clone(c) for c in n.getAllChildren()], n.getData())


def _variants():
    """further documented shapes of classes that already have a fixture: (variant name, class path, stanza builder)"""
    V = []
    V.append(("protocol_receipts:receipt_incoming.IncomingReceiptProtocolEntity#list", "protocol_receipts:receipt_incoming.IncomingReceiptProtocolEntity",
              lambda: N("receipt", {"from": J1, "t": "1432833777", "type": "read", "id": "1415389947-12"},
                        [N("list", {}, [N("item", {"id": "1415389947-13"}), N("item", {"id": "1415389947-14"})])])))
    V.append(("protocol_receipts:receipt_incoming.IncomingReceiptProtocolEntity#group", "protocol_receipts:receipt_incoming.IncomingReceiptProtocolEntity",
              lambda: N("receipt", {"from": G1, "participant": J2, "t": "1432833777", "id": "1415389947-12", "offline": "1"})))
    V.append(("protocol_groups:iq_result_groups_list.ListGroupsResultIqProtocolEntity#members", "protocol_groups:iq_result_groups_list.ListGroupsResultIqProtocolEntity",
              lambda: N("iq", {"type": "result", "from": "g.us", "id": "123"}, [N("groups", {}, [
                  N("group", {"s_t": "1400000001", "creation": "1400000000", "creator": J1, "id": "4915225251111-1400000000", "s_o": J1, "subject": "first"},
                    [N("participant", {"jid": J1, "type": "admin"}), N("participant", {"jid": J2})]),
                  N("group", {"s_t": "1400000003", "creation": "1400000002", "creator": J2, "id": "4915225252222-1400000002", "s_o": J2, "subject": "second"},
                    [N("participant", {"jid": J2, "type": "admin"})])])])))
    V.append(("protocol_ib:offline_ib.OfflineIbProtocolEntity#from", "protocol_ib:offline_ib.OfflineIbProtocolEntity",
              lambda: N("ib", {"from": "s.whatsapp.net"}, [N("offline", {"count": "5"})])))
    # an encrypted message with several ciphertext children (a group message to a member without a session yet: the pairwise part carrying the
    # sender key, then the group part): each child has its own attributes — a media type on one says nothing about the other
    EM = "axolotl:message_encrypted.EncryptedMessageProtocolEntity"
    GJ = "4915112345678-1418906000@g.us"
    V.append((EM + "#pk-then-sk-media", EM, lambda: N("message", {"from": GJ, "participant": J1, "t": "1418906418", "type": "media", "id": "1418906377-2", "notify": "Someone"},
              [N("enc", {"type": "pkmsg", "v": "2"}, data=b"\x33\x08\x01\x12\x21\x05abcdef"), N("enc", {"type": "skmsg", "v": "2", "mediatype": "image"}, data=b"\x33\x08\x02skdata")])))
    V.append((EM + "#media-then-plain", EM, lambda: N("message", {"from": GJ, "participant": J1, "t": "1418906418", "type": "media", "id": "1418906377-3", "notify": "Someone"},
              [N("enc", {"type": "msg", "v": "2", "mediatype": "video"}, data=b"\x33\x0a\x21\x05abc"), N("enc", {"type": "skmsg", "v": "2"}, data=b"\x33\x08\x02skdata")])))
    V.append((EM + "#two-media-types", EM, lambda: N("message", {"from": J1, "t": "1418906418", "type": "media", "id": "1418906377-4", "notify": "Someone"},
              [N("enc", {"type": "pkmsg", "v": "2", "mediatype": "audio"}, data=b"\x33\x08\x01\x12\x21\x05abcdef"), N("enc", {"type": "msg", "v": "2", "mediatype": "image"}, data=b"\x33\x0a\x21\x05abc")])))
    # the answer to an upload request in every combination of its optional attributes (its repository fixture module does not import here)
    UP = "protocol_media:iq_requestupload_result.ResultRequestUploadIqProtocolEntity"
    for vname, child in (("url", N("encr_media", {"url": "https://mmg.example/u/1"})),
                         ("url-ip", N("encr_media", {"url": "https://mmg.example/u/1", "ip": "203.0.113.7"})),
                         ("url-resume", N("encr_media", {"url": "https://mmg.example/u/1", "resume": "4096"})),
                         ("url-ip-resume", N("encr_media", {"url": "https://mmg.example/u/1", "ip": "203.0.113.7", "resume": "4096"})),
                         ("duplicate", N("duplicate", {"url": "https://mmg.example/u/1"}))):
        V.append((UP + "#" + vname, UP, (lambda child=child: N("iq", {"id": "12", "type": "result", "from": "s.whatsapp.net"}, [_clone(child)]))))
    # a call stanza of every kind the entity knows (the repository's fixture is the offer): the kind is the tag of the child carrying the call id
    CALL = "protocol_calls:call.CallProtocolEntity"
    for kind in ("transport", "relaylatency", "reject", "terminate"):
        V.append((CALL + "#" + kind, CALL,
                  (lambda kind=kind: N("call", {"from": J1, "t": "1418906418", "id": "1418906377-7", "notify": "Someone", "offline": "0", "retry": "1", "e": "0"},
                                       [N(kind, {"call-id": "1418906377-call"})]))))
    return [v for v in V if v[2] is not None]


def all_fixtures():
    """class path -> (class, base node, source)"""
    classes = entity_classes()
    out = {}
    for name, (cls, node) in repo_fixtures().items():
        if name in classes:
            out[name] = (cls, node, "repo")
    for name, fn in _extra().items():
        if name in classes and name not in out:
            try:
                out[name] = (classes[name], fn(), "extra")
            except Exception:
                pass
    for vname, cname, fn in _variants():
        if cname in classes:
            try:
                out[vname] = (classes[cname], fn(), "extra")
            except Exception:
                pass
    # attributes the class documents (docstring) on a tag its fixture has, but which no fixture of the class carries: one more shape per
    # class with all of them filled in
    import re
    have = {}
    for name, (cls, node, _src) in out.items():
        acc = have.setdefault(cls, set())
        for nn in _walk(node):
            acc.update(nn.tag + "@" + a for a in nn.attributes)
    for name, (cls, node, src) in list(out.items()):
        if "#" in name:
            continue
        doc = cls.__dict__.get("__doc__") or ""
        lack = []
        for m in re.finditer(r"<([a-zA-Z:_0-9]+)((?:\s+[a-zA-Z_:0-9]+\s*=\s*\"[^\"]*\")*)", doc):
            for a in re.finditer(r"([a-zA-Z_:0-9]+)\s*=\s*\"", m.group(2)):
                key = m.group(1) + "@" + a.group(1)
                if key not in have[cls] and key not in lack:
                    lack.append(key)
        if not lack:
            continue
        v = _clone(node)
        added = 0
        for key in lack:
            tag, attr = key.split("@")
            val = _DOC_VALUES.get(attr)
            if val is None:
                continue
            for nn in _walk(v):
                if nn.tag == tag and attr not in nn.attributes:
                    nn.attributes[attr] = val
                    added += 1
                    break
        if added:
            out[name + "#doc"] = (cls, v, "extra")
    return out, sorted(set(classes) - set(n.split("#")[0] for n in out))
