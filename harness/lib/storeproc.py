"""One life of a process that uses the key store (a fresh interpreter: its own string-hash salt, its own module state, nothing in memory from
the life before).  `write <db>`: stores one record per store kind through the store's API and prints what it stored; `read <db> <file with the first life's output>`: loads the
same records through the API and prints what it got.  Output: one line per record, `<name> <hex of the serialised record | - >`."""
import sys

import boot  # noqa: F401


def main(argv):
    mode, path = argv[0], argv[1]
    from lib import axo
    from yowsup.axolotl.factory import AxolotlManagerFactory  # noqa: F401 (import check: the store is what the manager's factory opens)
    from yowsup.axolotl.store.sqlite.liteaxolotlstore import LiteAxolotlStore
    store = LiteAxolotlStore(path)
    out = []
    written = {}
    if mode == "read" and len(argv) > 2:
        for line in open(argv[2]):
            name, hx = line.split()
            written[name] = bytes.fromhex(hx) if hx != "-" else None
    if mode == "write":
        pool = axo.Pool(3)
        for k, v in ((4911, 0), (4922, 1)):
            axo.apply_op(store, pool, 0, k, v)
            out.append(("session:%d" % k, bytes(pool.session[v].serialize())))
            axo.apply_op(store, pool, 3, k, v)
            out.append(("identity:%d" % k, bytes(pool.identity[v].getPublicKey().serialize())))
        for k in (5, 6):
            axo.apply_op(store, pool, 4, k, 0)
            out.append(("prekey:%d" % k, bytes(pool.prekey(k, 0).serialize())))
            axo.apply_op(store, pool, 7, k, 0)
            out.append(("signed:%d" % k, bytes(pool.signed(k, 0).serialize())))
        for k, v in ((0, 0), (1, 1), (12, 2)):
            axo.apply_op(store, pool, 9, k, v)
            out.append(("senderkey:%d" % k, bytes(pool.sender[v].serialize())))
    else:
        for k in (4911, 4922):
            out.append(("session:%d" % k, bytes(store.loadSession(k, 1).serialize()) if store.containsSession(k, 1) else None))
            # the pin, through the API: the identity the earlier life stored is the trusted one, another one is not
            from axolotl.identitykey import IdentityKey
            from axolotl.ecc.curve import Curve
            blob = written.get("identity:%d" % k)
            same = blob is not None and store.isTrustedIdentity(k, IdentityKey(bytearray(blob), 0))
            other = store.isTrustedIdentity(k, IdentityKey(Curve.generateKeyPair().getPublicKey()))
            out.append(("identity:%d" % k, blob if (same and not other) else None))
        for k in (5, 6):
            out.append(("prekey:%d" % k, bytes(store.loadPreKey(k).serialize()) if store.containsPreKey(k) else None))
            out.append(("signed:%d" % k, bytes(store.loadSignedPreKey(k).serialize()) if store.containsSignedPreKey(k) else None))
        for k in (0, 1, 12):
            rec = store.loadSenderKey(axo.sender_name(k))
            out.append(("senderkey:%d" % k, None if rec.isEmpty() else bytes(rec.serialize())))
    for name, blob in out:
        sys.stdout.write("%s %s\n" % (name, blob.hex() if blob is not None else "-"))


if __name__ == "__main__":
    main(sys.argv[1:])
