"""Cooperative scheduling of REAL threads: only the thread holding the baton runs; at every scheduling point
(lock acquire / release, and the points a harness marks with `point(tag)`) the running thread hands the baton
back and the scheduler picks who goes next.  A schedule is therefore a reproducible list of choices, and a
lock that is held makes its waiters unrunnable instead of blocking the process.

`CoopLock` is a drop-in for threading.Lock inside the yowsup modules that create locks (see `install`)."""
import threading as _threading

_STATE = {"coop": None}


class Deadlock(Exception):
    pass


class Task(object):
    def __init__(self, coop, idx, fn):
        self.coop, self.idx, self.fn = coop, idx, fn
        self.sem = _threading.Semaphore(0)
        self.done = False
        self.exc = None
        self.blocked_on = None
        self.thread = _threading.Thread(target=self._run, daemon=True)

    def _run(self):
        self.sem.acquire()
        try:
            if self.coop.preempt is not None:
                import sys
                sys.settrace(self.coop._tracer)
            self.fn()
        except BaseException as e:  # noqa
            self.exc = e
        finally:
            self.done = True
            self.coop.main.release()


class Coop(object):
    def __init__(self):
        self.main = _threading.Semaphore(0)
        self.tasks = []
        self.current = None
        self.trace = []        # (task index, tag) of every completed marked operation
        self.choices = []
        self.stuck_after = 8.0
        self.preempt = None    # (path fragments, probability, rng): additional scheduling points at source LINES of the matching files

    def preempt_lines(self, fragments, prob, rng):
        """line-level preemption: inside functions of files whose path contains one of `fragments`, every executed line is a scheduling point
        with probability `prob` (decided by `rng`, so the run is reproducible).  CPython may switch threads between any two bytecodes; the
        instrumented points (locks, queues, writes) cover the operations on shared state the code is KNOWN to have — this covers the rest."""
        self.preempt = (tuple(fragments), prob, rng)

    def _tracer(self, frame, event, arg):
        frags, prob, rng = self.preempt
        fn = frame.f_code.co_filename
        if not any(f in fn for f in frags):
            return None

        def local(frame, event, arg):
            if event == "line" and rng.random() < prob and self.me() is not None:
                self.yield_()
            return local
        return local

    def spawn(self, fn):
        t = Task(self, len(self.tasks), fn)
        self.tasks.append(t)
        t.thread.start()
        return t

    def me(self):
        cur = self.current
        if cur is not None and _threading.current_thread() is cur.thread:
            return cur
        return None

    def yield_(self):
        t = self.me()
        if t is None:
            return
        self.main.release()
        t.sem.acquire()

    def log(self, tag):
        t = self.me()
        if t is not None:
            self.trace.append((t.idx, tag))

    def run(self, choose, limit=100000):
        _STATE["coop"] = self
        n = 0
        try:
            while True:
                live = [t for t in self.tasks if not t.done]
                if not live:
                    return
                runnable = [t for t in live if not (t.blocked_on is not None and t.blocked_on.held)]
                if not runnable:
                    raise Deadlock("threads %s wait for locks that are never released" % [t.idx for t in live])
                t = choose(runnable)
                self.choices.append(t.idx)
                self.current = t
                t.sem.release()
                if not self.main.acquire(timeout=self.stuck_after):
                    import sys
                    import traceback
                    frame = sys._current_frames().get(t.thread.ident)
                    where = "".join(traceback.format_stack(frame)[-4:]) if frame is not None else "?"
                    raise Deadlock("thread %d blocks outside the scheduler's control (a real blocking call that never returns):\n%s" % (t.idx, where))
                self.current = None
                n += 1
                if n > limit:
                    raise Deadlock("no termination after %d scheduling steps" % limit)
        finally:
            _STATE["coop"] = None


def chooser(r):
    """a schedule strategy drawn from the case's PRNG: uniform choice at every point, or bursts (stay with the running
    thread with probability 0.7 / 0.9) — bursts make 'A stops right here, B runs a whole section, A resumes' likely"""
    stick = r.choice([0.0, 0.0, 0.7, 0.9])
    last = [None]

    def choose(runnable):
        if last[0] is not None and stick and r.random() < stick:
            for t in runnable:
                if t.idx == last[0]:
                    return t
        t = r.choice(runnable)
        last[0] = t.idx
        return t
    return choose


def point(tag=None):
    """a scheduling point in harness-instrumented code; the tag (if any) is logged when the thread resumes"""
    c = _STATE["coop"]
    if c is not None:
        c.yield_()
        if tag is not None:
            c.log(tag)


def log(tag):
    c = _STATE["coop"]
    if c is not None:
        c.log(tag)


LOCKS = []


class CoopLock(object):
    def __init__(self):
        import sys
        self.held = False
        self.owner = sys._getframe(1).f_locals.get("self")      # the object whose __init__ creates the lock
        self.holder = None
        self.acquires = 0
        self.conditional = 0        # acquisitions that may give up (non-blocking or with a timeout): no mutual exclusion can rest on them
        LOCKS.append(self)

    def acquire(self, blocking=True, timeout=-1):
        c = _STATE["coop"]
        t = c.me() if c is not None else None
        timed = blocking and timeout is not None and timeout >= 0
        if timed or not blocking:
            self.conditional += 1
        if t is not None:
            c.yield_()
            while self.held:
                if not blocking:
                    return False
                if timed:
                    # time is not modelled: a timed wait may expire whenever the waiter is scheduled while the lock is still held
                    # (the holder is "slow"); if the holder is scheduled first and releases, the wait succeeds
                    c.log(("timeout", self))
                    return False
                t.blocked_on = self
                c.yield_()
            t.blocked_on = None
        elif self.held:
            raise RuntimeError("lock held outside cooperative scheduling")
        self.held = True
        self.holder = t
        self.acquires += 1
        if c is not None:
            c.log(("acq", self))
        return True

    def release(self):
        if not self.held:
            raise RuntimeError("release unlocked lock")
        self.held = False
        self.holder = None
        c = _STATE["coop"]
        if c is not None:
            c.log(("rel", self))
            c.yield_()

    def locked(self):
        return self.held

    def __enter__(self):
        self.acquire()
        return self

    def __exit__(self, *a):
        self.release()


class _ThreadingProxy(object):
    Lock = CoopLock

    def __getattr__(self, n):
        return getattr(_threading, n)


def install():
    import yowsup.layers as L
    import yowsup.layers.noise.layer as NL
    L.threading = _ThreadingProxy()
    NL.threading = _ThreadingProxy()


def uninstall():
    import yowsup.layers as L
    import yowsup.layers.noise.layer as NL
    L.threading = _threading
    NL.threading = _threading


class _WaitNonEmpty(object):
    def __init__(self, q):
        self.q = q

    @property
    def held(self):
        return not self.q.items


class CoopQueue(object):
    """drop-in for queue.Queue (put / get / qsize / empty) whose blocking get makes the caller unrunnable, not blocked"""
    instances = []

    def __init__(self, maxsize=0):
        self.items = []
        CoopQueue.instances.append(self)

    def put(self, item, block=True, timeout=None):
        c = _STATE["coop"]
        if c is not None:
            c.yield_()
        self.items.append(item)
        if c is not None:
            c.log(("put", self, item))

    def get(self, block=True, timeout=None):
        c = _STATE["coop"]
        t = c.me() if c is not None else None
        if t is not None:
            c.yield_()
            while not self.items:
                if not block:
                    import queue
                    raise queue.Empty()
                t.blocked_on = _WaitNonEmpty(self)
                c.yield_()
            t.blocked_on = None
        elif not self.items:
            import queue
            raise queue.Empty()
        item = self.items.pop(0)
        if c is not None:
            c.log(("get", self, item))
        return item

    def qsize(self):
        return len(self.items)

    def empty(self):
        return not self.items


class _QueueProxy(object):
    Queue = CoopQueue

    def __getattr__(self, n):
        import queue
        return getattr(queue, n)


def install_noise():
    """cooperative locks, the noise layer's segment queue and its handshake worker threads"""
    import queue
    import yowsup.layers.noise.layer as NL
    import yowsup.layers.noise.workers.handshake as HW
    install()
    NL.Queue = _QueueProxy()
    if not hasattr(HW.WANoiseProtocolHandshakeWorker, "_coop_orig_start"):
        HW.WANoiseProtocolHandshakeWorker._coop_orig_start = HW.WANoiseProtocolHandshakeWorker.start

        def start(self):
            c = _STATE["coop"]
            if c is None:
                return HW.WANoiseProtocolHandshakeWorker._coop_orig_start(self)
            t = c.spawn(self.run)
            t.worker = self
            self._coop_task = t
            c.yield_()          # starting a thread is a scheduling point: the new thread may run before start() returns
            return None
        HW.WANoiseProtocolHandshakeWorker.start = start
        orig_alive = HW.WANoiseProtocolHandshakeWorker.is_alive

        def is_alive(self):
            # (the stand-in answers what the thread object would: started and not yet finished)
            t = getattr(self, "_coop_task", None)
            return (not t.done) if t is not None else orig_alive(self)
        HW.WANoiseProtocolHandshakeWorker.is_alive = is_alive
