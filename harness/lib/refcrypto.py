"""Independent implementations used as references: RFC 5869 HKDF-SHA256 (stdlib), AES-256-CBC via the
openssl CLI, HMAC via the openssl CLI (sampled) — none of them shares code with yowsup or python-axolotl."""
import hashlib
import hmac
import subprocess


def hkdf_sha256(ikm, info, length, salt=None):
    salt = salt if salt is not None else b"\x00" * 32
    prk = hmac.new(salt, ikm, hashlib.sha256).digest()
    out, t, i = b"", b"", 1
    while len(out) < length:
        t = hmac.new(prk, t + info + bytes([i]), hashlib.sha256).digest()
        out += t
        i += 1
    return out[:length]


def _openssl(args, data):
    p = subprocess.run(["openssl"] + args, input=data, stdout=subprocess.PIPE, stderr=subprocess.PIPE)
    if p.returncode != 0:
        raise RuntimeError("openssl %s failed: %s" % (args[0], p.stderr.decode()[:200]))
    return p.stdout


def aes256_cbc_encrypt(key, iv, data, pad=True):
    return _openssl(["enc", "-aes-256-cbc", "-K", key.hex(), "-iv", iv.hex()] + ([] if pad else ["-nopad"]), data)


def aes256_cbc_decrypt(key, iv, data, pad=True):
    return _openssl(["enc", "-d", "-aes-256-cbc", "-K", key.hex(), "-iv", iv.hex()] + ([] if pad else ["-nopad"]), data)


def hmac_sha256_openssl(key, data):
    out = _openssl(["dgst", "-sha256", "-mac", "HMAC", "-macopt", "hexkey:" + key.hex(), "-binary"], data)
    return out


def hmac_sha1_openssl(key, data):
    return _openssl(["dgst", "-sha1", "-mac", "HMAC", "-macopt", "hexkey:" + key.hex(), "-binary"], data)


def media_encrypt_ref(plaintext, ref_key, info):
    """the WhatsApp media layout: HKDF(ref_key, info, 112) -> iv(16) key(32) mackey(32) …;
    AES-256-CBC with PKCS#7 always; HMAC-SHA256(mackey, iv || ct)[:10] appended"""
    d = hkdf_sha256(ref_key, info, 112)
    iv, key, mk = d[:16], d[16:48], d[48:80]
    ct = aes256_cbc_encrypt(key, iv, plaintext, pad=True)
    return ct + hmac.new(mk, iv + ct, hashlib.sha256).digest()[:10], (iv, key, mk)
