"""Factories for distinguishable python-axolotl records and helpers around the real LiteAxolotlStore."""
import sqlite3

import boot  # noqa: F401
from axolotl.axolotladdress import AxolotlAddress
from axolotl.ecc.curve import Curve
from axolotl.groups.senderkeyname import SenderKeyName
from axolotl.groups.state.senderkeyrecord import SenderKeyRecord
from axolotl.identitykey import IdentityKey
from axolotl.state.sessionrecord import SessionRecord
from axolotl.util.keyhelper import KeyHelper

TOMB = 9          # model value of a retired one-time prekey's row (record NULL)
TABLES = ["sessions", "identities", "prekeys", "signed_prekeys", "sender_keys"]
GROUPS = ["111-222@g.us", "333-444@g.us"]
SENDERS = ["4911", "4922", "4933"]


def sender_name(key):
    """model key -> SenderKeyName (key = group index * 10 + sender index)"""
    return SenderKeyName(GROUPS[key // 10 % len(GROUPS)], AxolotlAddress(SENDERS[key % 10 % len(SENDERS)], 0))


class Pool(object):
    """value number -> real record objects (created once), and blob -> value number for reading back"""

    def __init__(self, n=6):
        self.n = n
        self.session = []
        for v in range(n):
            r = SessionRecord()
            r.getSessionState().setLocalRegistrationId(1000 + v)
            r.getSessionState().setSessionVersion(3)
            self.session.append(r)
        self.identity = [IdentityKey(Curve.generateKeyPair().getPublicKey()) for _ in range(n)]
        self.idpair = KeyHelper.generateIdentityKeyPair()
        self.sender = []
        for v in range(n):
            r = SenderKeyRecord()
            r.setSenderKeyState(v + 1, 0, bytes([v + 1]) * 32, Curve.generateKeyPair())
            self.sender.append(r)
        self._prekeys = {}
        self._signed = {}
        self.blob2val = {}
        for v in range(n):
            self.blob2val[("sessions", bytes(self.session[v].serialize()))] = v
            self.blob2val[("identities", bytes(self.identity[v].getPublicKey().serialize()))] = v
            self.blob2val[("sender_keys", bytes(self.sender[v].serialize()))] = v

    def prekey(self, key, v):
        """a PreKeyRecord with id `key`, variant v"""
        if (key, v) not in self._prekeys:
            rec = KeyHelper.generatePreKeys(key - 1 if key > 0 else 0, 1)[0] if key > 0 else KeyHelper.generatePreKeys(0, 1)[0]
            from axolotl.state.prekeyrecord import PreKeyRecord
            rec = PreKeyRecord(key, Curve.generateKeyPair())
            self._prekeys[(key, v)] = rec
            self.blob2val[("prekeys", bytes(rec.serialize()))] = v
        return self._prekeys[(key, v)]

    def signed(self, key, v):
        if (key, v) not in self._signed:
            rec = KeyHelper.generateSignedPreKey(self.idpair, key)
            self._signed[(key, v)] = rec
            self.blob2val[("signed_prekeys", bytes(rec.serialize()))] = v
        return self._signed[(key, v)]


def dump(dbpath, pool):
    """canonical content of the database file as the model shows it: per table sorted (key, val, flag)"""
    conn = sqlite3.connect(dbpath)
    out = []
    try:
        def val(table, blob):
            if blob is None:
                return TOMB
            return pool.blob2val.get((table, bytes(blob)), "?")
        rows = conn.execute("SELECT recipient_id, record FROM sessions").fetchall()
        out.append(sorted((int(k), val("sessions", b), 0) for k, b in rows))
        rows = conn.execute("SELECT recipient_id, public_key FROM identities WHERE recipient_id != -1").fetchall()
        out.append(sorted((int(k), val("identities", b), 0) for k, b in rows))
        rows = conn.execute("SELECT prekey_id, record, sent_to_server FROM prekeys").fetchall()
        out.append(sorted((int(k), val("prekeys", b), 1 if s else 0) for k, b, s in rows))
        rows = conn.execute("SELECT prekey_id, record FROM signed_prekeys").fetchall()
        out.append(sorted((int(k), val("signed_prekeys", b), 0) for k, b in rows))
        rows = conn.execute("SELECT group_id, sender_id, record FROM sender_keys").fetchall()

        def skey(g, s):
            g = g.decode() if isinstance(g, bytes) else g
            s = s.decode() if isinstance(s, bytes) else str(s)
            # (a row under a name the check never used shows up as group 9 / sender 9: a difference from the model, not a crash of the check)
            return (GROUPS.index(g) if g in GROUPS else 9) * 10 + (SENDERS.index(s) if s in SENDERS else 9)
        out.append(sorted((skey(g, s), val("sender_keys", b), 0) for g, s, b in rows))
        local = conn.execute("SELECT registration_id, public_key, private_key FROM identities WHERE recipient_id = -1").fetchall()
    finally:
        conn.close()
    return out, local


def show_dump(d):
    return "|".join(",".join("%d:%s:%d" % r for r in t) for t in d)


# ---- the store API operations, by model op id -------------------------------------------------

OPS = {
    0: ("storeSession", "replace", 0),
    1: ("deleteSession", "remove", 0),
    2: ("deleteAllSessions", "remove", 0),
    3: ("saveIdentity", "replace", 1),
    4: ("storePreKey", "insertNew", 2),
    5: ("removePreKey", "retire", 2),      # the row stays as a tombstone (record NULL): its id is never handed out again
    6: ("setAsSent", "markSent", 2),
    7: ("storeSignedPreKey", "insertNew", 3),
    8: ("removeSignedPreKey", "remove", 3),
    9: ("storeSenderKey", "replace", 4),
}


def apply_op(store, pool, op, k, v, k2=None):
    """run API operation `op` of the real store"""
    if op == 0:
        store.storeSession(k, 1, pool.session[v])
    elif op == 1:
        store.deleteSession(k, 1)
    elif op == 2:
        store.deleteAllSessions(k)
    elif op == 3:
        store.saveIdentity(k, pool.identity[v])
    elif op == 4:
        store.storePreKey(k, pool.prekey(k, v))
    elif op == 5:
        store.removePreKey(k)
    elif op == 6:
        store.preKeyStore.setAsSent([k, k2 if k2 is not None else k])
    elif op == 7:
        store.storeSignedPreKey(k, pool.signed(k, v))
    elif op == 8:
        store.removeSignedPreKey(k)
    elif op == 9:
        store.storeSenderKey(sender_name(k), pool.sender[v])
    else:
        raise ValueError(op)
