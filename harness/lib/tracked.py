"""Tracked, deterministic locks: drop-in for threading.Lock inside the yowsup modules that create
locks.  Operations in the checks that use it are issued one at a time (never concurrently), so an
acquire() on a lock that is already held can never succeed: it is reported as BlockedForever instead
of hanging (deterministic, no timeouts)."""
import threading as _threading


class BlockedForever(BaseException):
    def __init__(self, lock):
        BaseException.__init__(self, "acquire() on a lock that is held and will never be released: %s" % lock.name)
        self.lock = lock


REGISTRY = []


class TrackedLock(object):
    def __init__(self):
        self.held = False
        self.name = "lock#%d" % len(REGISTRY)
        import sys
        self.owner = sys._getframe(1).f_locals.get("self")   # the object whose __init__ creates the lock
        self.acquires = 0
        REGISTRY.append(self)

    def acquire(self, blocking=True, timeout=-1):
        if self.held:
            if not blocking:
                return False
            raise BlockedForever(self)
        self.held = True
        self.acquires += 1
        return True

    def release(self):
        if not self.held:
            raise RuntimeError("release unlocked lock")
        self.held = False

    def locked(self):
        return self.held

    def __enter__(self):
        self.acquire()
        return self

    def __exit__(self, *a):
        self.release()


class _ThreadingProxy(object):
    Lock = TrackedLock

    def __getattr__(self, n):
        return getattr(_threading, n)


def install():
    """bind the tracked Lock into the modules that create locks on the data paths"""
    import yowsup.layers as L
    import yowsup.layers.noise.layer as NL
    L.threading = _ThreadingProxy()
    NL.threading = _ThreadingProxy()


def uninstall():
    import yowsup.layers as L
    import yowsup.layers.noise.layer as NL
    L.threading = _threading
    NL.threading = _threading


def held_locks():
    return [l for l in REGISTRY if l.held]


def release_all():
    for l in REGISTRY:
        l.held = False
