"""The request kinds for which the stack defines a reply entity: request factory, owning protocol layer,
and factories for a well-formed result / error reply stanza (built from the library's own result
entity classes and re-tagged with the request's id)."""
import boot  # noqa: F401

JID = "4912345@s.whatsapp.net"
GJID = "4912345-1400000000@g.us"


def _set_id(node, _id):
    node.setAttribute("id", _id)
    if node.getAttributeValue("from") is None:
        node.setAttribute("from", "s.whatsapp.net")
    return node


def kinds():
    from yowsup.layers.protocol_iq.protocolentities import PingIqProtocolEntity, ResultIqProtocolEntity
    from yowsup.layers.protocol_presence.protocolentities import LastseenIqProtocolEntity, ResultLastseenIqProtocolEntity
    import yowsup.layers.protocol_profiles.protocolentities as PR
    import yowsup.layers.protocol_groups.protocolentities as G
    import yowsup.layers.protocol_contacts.protocolentities as C
    import yowsup.layers.protocol_media.protocolentities as M

    def generic(i):
        return ResultIqProtocolEntity(_id=i, _from="s.whatsapp.net").toProtocolTreeNode()

    K = []

    def add(name, owner, req, res):
        base = {"contact-sync-part": "contact-sync", "contact-sync-delta": "contact-sync", "picture-get-full": "picture-get", "privacy-get-future": "privacy-get", "pictures-list": "picture-get",
                "media-upload-duplicate": "media-upload", "media-upload-resume": "media-upload"}.get(name, name)
        K.append({"name": name, "base": base, "owner": owner, "req": req, "res": res})
    add("ping", "YowIqProtocolLayer", lambda: PingIqProtocolEntity(to="s.whatsapp.net"), generic)
    add("lastseen", "YowPresenceProtocolLayer", lambda: LastseenIqProtocolEntity(JID),
        lambda i: ResultLastseenIqProtocolEntity(JID, 42, i).toProtocolTreeNode())
    from yowsup.structs import ProtocolTreeNode

    def picture(i):
        # the documented shape (the entity's own toProtocolTreeNode does not produce it: see C09)
        return ProtocolTreeNode("iq", {"type": "result", "from": JID, "id": i},
                                [ProtocolTreeNode("picture", {"type": "preview", "id": "77"}, None, b"\x01\x02")])
    add("picture-get", "YowProfilesProtocolLayer", lambda: PR.GetPictureIqProtocolEntity(JID), picture)
    add("picture-set", "YowProfilesProtocolLayer", lambda: PR.SetPictureIqProtocolEntity(JID, b"pp", b"dd"), picture)
    add("privacy-get", "YowProfilesProtocolLayer", lambda: PR.GetPrivacyIqProtocolEntity(),
        lambda i: PR.ResultPrivacyIqProtocolEntity({"last": "all", "status": "contacts", "profile": "none"}).toProtocolTreeNode())
    # the server's vocabulary grows: categories and values the library's documentation does not list yet
    add("privacy-get-future", "YowProfilesProtocolLayer", lambda: PR.GetPrivacyIqProtocolEntity(),
        lambda i: PR.ResultPrivacyIqProtocolEntity({"last": "contacts", "readreceipts": "all", "groupadd": "contact_blacklist", "online": "match_last_seen"}).toProtocolTreeNode())
    add("status-set", "YowProfilesProtocolLayer", lambda: PR.SetStatusIqProtocolEntity("hello"), generic)
    add("group-create", "YowGroupsProtocolLayer", lambda: G.CreateGroupsIqProtocolEntity("subject", participants=[JID]),
        lambda i: G.SuccessCreateGroupsIqProtocolEntity(i, "4912345-1400000001").toProtocolTreeNode())
    add("group-leave", "YowGroupsProtocolLayer", lambda: G.LeaveGroupsIqProtocolEntity([GJID]),
        lambda i: G.SuccessLeaveGroupsIqProtocolEntity(i, "4912345-1400000000").toProtocolTreeNode())
    add("group-list", "YowGroupsProtocolLayer", lambda: G.ListGroupsIqProtocolEntity(),
        lambda i: G.ListGroupsResultIqProtocolEntity([]).toProtocolTreeNode())
    add("group-subject", "YowGroupsProtocolLayer", lambda: G.SubjectGroupsIqProtocolEntity(GJID, b"new subject"), generic)
    add("group-add", "YowGroupsProtocolLayer", lambda: G.AddParticipantsIqProtocolEntity(GJID, [JID]),
        lambda i: G.SuccessAddParticipantsIqProtocolEntity(i, GJID, [JID]).toProtocolTreeNode())
    add("group-remove", "YowGroupsProtocolLayer", lambda: G.RemoveParticipantsIqProtocolEntity(GJID, [JID]),
        lambda i: G.SuccessRemoveParticipantsIqProtocolEntity(i, GJID, [JID]).toProtocolTreeNode())
    add("group-promote", "YowGroupsProtocolLayer", lambda: G.PromoteParticipantsIqProtocolEntity(GJID, [JID]), generic)
    add("group-demote", "YowGroupsProtocolLayer", lambda: G.DemoteParticipantsIqProtocolEntity(GJID, [JID]), generic)
    add("contact-sync", "YowContactsIqProtocolLayer", lambda: C.GetSyncIqProtocolEntity(["+4912345"]),
        lambda i: C.ResultSyncIqProtocolEntity(i, "1.2", 0, True, "1", {"+4912345": JID}, {}, []).toProtocolTreeNode())
    # the same requests built with their constructors' other options (a multi-part sync, a delta sync during registration, a full-size picture)
    add("contact-sync-part", "YowContactsIqProtocolLayer", lambda: C.GetSyncIqProtocolEntity(["+4912345", "+4912346"], index=0, last=False),
        lambda i: C.ResultSyncIqProtocolEntity(i, "1.2", 0, False, "1", {"+4912345": JID}, {}, []).toProtocolTreeNode())
    add("contact-sync-delta", "YowContactsIqProtocolLayer", lambda: C.GetSyncIqProtocolEntity(["+4912345"], mode="delta", context="registration", index=1, last=True),
        lambda i: C.ResultSyncIqProtocolEntity(i, "1.3", 1, True, "2", {"+4912345": JID}, {}, []).toProtocolTreeNode())
    add("picture-get-full", "YowProfilesProtocolLayer", lambda: PR.GetPictureIqProtocolEntity(JID, preview=False), picture)
    add("media-upload", "YowMediaProtocolLayer", lambda: M.RequestUploadIqProtocolEntity("image", b64Hash="aGFzaA==", size=10),
        lambda i: M.ResultRequestUploadIqProtocolEntity(i, "https://mmg.whatsapp.net/u/1", None, 0, False).toProtocolTreeNode())
    # the other answers the server gives to an upload request: the file is already there (<duplicate url=…/>), or part of it is (resume offset)
    add("media-upload-duplicate", "YowMediaProtocolLayer", lambda: M.RequestUploadIqProtocolEntity("video", b64Hash="aGFzaDI=", size=2048),
        lambda i: M.ResultRequestUploadIqProtocolEntity(i, "https://mmg.whatsapp.net/d/f/2.enc", None, 0, True).toProtocolTreeNode())
    add("media-upload-resume", "YowMediaProtocolLayer", lambda: M.RequestUploadIqProtocolEntity("document", b64Hash="aGFzaDM=", size=4096),
        lambda i: M.ResultRequestUploadIqProtocolEntity(i, "https://mmg.whatsapp.net/u/3", "10.0.0.3", 1024, False).toProtocolTreeNode())
    # the remaining requests of the profiles layer
    add("statuses-get", "YowProfilesProtocolLayer", lambda: PR.GetStatusesIqProtocolEntity([JID, "4912346@s.whatsapp.net"]),
        lambda i: PR.ResultStatusesIqProtocolEntity(i, "s.whatsapp.net", {JID: (b"at work", "1330555420")}).toProtocolTreeNode())
    add("pictures-list", "YowProfilesProtocolLayer", lambda: PR.ListPicturesIqProtocolEntity(JID, [JID, "4912346@s.whatsapp.net"]), picture)
    add("privacy-set", "YowProfilesProtocolLayer", lambda: PR.SetPrivacyIqProtocolEntity("contacts", ["last", "status"]),
        lambda i: PR.ResultPrivacyIqProtocolEntity({"last": "contacts", "status": "contacts"}).toProtocolTreeNode())
    return K


def result_node(kind, _id):
    return _set_id(kind["res"](_id), _id)


ERROR_VARIANTS = [(404, "item-not-found", None), (401, "not-authorized", None), (406, "not-acceptable", 3600), (500, "internal-server-error", 0),
                  (503, "service-unavailable", 10), (429, "rate-overlimit", 86400), (400, "bad-request", None)]


def error_node(_id):
    """an error reply; the error itself (code, text, back-off) varies with the id so that the streams see several kinds"""
    from yowsup.layers.protocol_iq.protocolentities import ErrorIqProtocolEntity
    code, text, backoff = ERROR_VARIANTS[sum(bytearray(str(_id).encode())) % len(ERROR_VARIANTS)]
    return ErrorIqProtocolEntity(_id, "s.whatsapp.net", code, text, backoff).toProtocolTreeNode()


LAYER_IDS = {"YowIqProtocolLayer": 16, "YowPresenceProtocolLayer": 14, "YowProfilesProtocolLayer": 24, "YowGroupsProtocolLayer": 21,
             "YowContactsIqProtocolLayer": 18, "YowMediaProtocolLayer": 22}


def protocol_stack(iq_handler=False):
    """[bottom probe, axolotl control, (axolotl send|receive), (all protocol layers), interface layer, top probe]
    iq_handler: the application's interface layer declares a catch-all handler for iq entities (as yowsup-cli's does); what it gets it hands on
    to the top probe, so that "reached the application as an ordinary entity" is observed in the same place either way"""
    from yowsup.layers import YowParallelLayer
    from yowsup.layers.interface import YowInterfaceLayer
    from yowsup.stacks import YowStack, YowStackBuilder
    from lib.probes import Probe
    layers = YowStackBuilder.getDefaultLayers()
    bottom, top = Probe("bottom"), Probe("top")
    if iq_handler:
        from yowsup.layers.interface import ProtocolEntityCallback

        class AppWithIqHandler(YowInterfaceLayer):
            @ProtocolEntityCallback("iq")
            def on_iq(self, entity):
                self.toUpper(entity)
        iface = AppWithIqHandler()
    else:
        iface = YowInterfaceLayer()
    stack = YowStack((bottom,) + tuple(layers[5:]) + (iface, top), reversed=False)
    return stack, bottom, iface, top
