"""The downward data path with real layers for the concurrency checks: [network-boundary probe, YowNoiseSegmentsLayer,
YowNoiseLayer (real protocol state machine and stream; the cipher replaced by a counting stand-in), YowCoderLayer, top probe].
The stand-in "encrypts" by prefixing 0x01 and the 4-byte cipher counter it was given at that moment."""
import struct

import boot  # noqa: F401
from lib import coop


class SendRefused(Exception):
    """the session refuses a payload (marked REFUSEME) before it takes a message number for it: a send that fails BELOW the layers' locks"""


class CountingTransport(object):
    def __init__(self, stream, hooks):
        self._stream = stream
        self.counter = 0
        self.hooks = hooks

    def send(self, data):
        coop.point()
        if b"REFUSEME" in bytes(data):
            raise SendRefused()
        n = self.counter
        self.counter += 1
        self.hooks("enc", n)
        coop.log("enc")
        frame = b"\x01" + struct.pack(">I", n) + bytes(data)
        self._stream.write_segment(frame)

    def recv(self):
        d = self._stream.read_segment()
        return bytes(d[5:])


def build(on_event=None):
    """returns (stack, top probe, bottom probe, layers dict)"""
    from yowsup.layers import YowLayer
    from yowsup.layers.coder import YowCoderLayer
    from yowsup.layers.noise.layer import YowNoiseLayer
    from yowsup.layers.noise.layer_noise_segments import YowNoiseSegmentsLayer
    from yowsup.stacks import YowStack
    events = on_event or (lambda kind, arg: None)

    class Bottom(YowLayer):
        def __init__(self):
            YowLayer.__init__(self)
            self.writes = []

        def send(self, data):
            coop.point()
            self.writes.append(bytes(data))
            events("write", bytes(data))
            coop.log("write")

        def receive(self, data):
            self.toUpper(data)

    class Top(YowLayer):
        def send(self, data):
            self.toLower(data)

        def receive(self, data):
            pass

    bottom, seg, noise, coder, top = Bottom(), YowNoiseSegmentsLayer(), YowNoiseLayer(), YowCoderLayer(), Top()
    stack = YowStack((bottom, seg, noise, coder, top), reversed=False)
    stack.setProp(YowNoiseSegmentsLayer.PROP_ENABLED, True)
    p = noise._wa_noiseprotocol
    p._machine.set_state("transport")
    p._last_triggered_state = "transport"
    p._transport = CountingTransport(noise._stream, events)
    stream = noise._stream
    orig_put, orig_get = stream.write_segment, stream.get_write_segment

    def write_segment(data):
        coop.point()
        stream._writequeue.put(data)
        coop.log("put")
        if stream._events_callback is not None:
            stream._events_callback(stream.EVENT_WRITE)

    def get_write_segment():
        coop.point()
        d = orig_get()
        coop.log("get")
        return d
    stream.write_segment = write_segment
    stream.get_write_segment = get_write_segment
    stream.set_events_callback(noise._handle_stream_event)
    return stack, top, bottom, {"seg": seg, "noise": noise, "coder": coder, "top": top, "bottom": bottom}
