#!/bin/sh
# Build the framework from files on disk only (offline): regenerate Gen/*.lean from /repo,
# build the Lean library (all models, lemmas, property theorems) and the model driver.
set -e
DIR="$(cd "$(dirname "$0")" && pwd)"
cd "$DIR"
export PYTHONPATH="$DIR/harness" PYTHONDONTWRITEBYTECODE=1
mkdir -p evidence replays lean/YowsupVerif/Gen
/venv/bin/python -c '
import boot, core, os, sys
names = sorted(f[:-3] for f in os.listdir(os.path.join(core.VERIF, "harness", "gen")) if f.endswith(".py") and f != "__init__.py")
for r in core.regenerate(names):
    print("gen", r)
    if not r[1]:
        sys.exit("translator failed: %r" % (r,))
'
cd lean
lake build 2>&1 | grep -v "^trace" | tail -40
test -x .lake/build/bin/yowdriver
echo "setup ok"
